#!/usr/bin/env python3
"""Offline setup for the Zeno deterministic-simulation harness.

Creates under /verif/.build:
  third_party/warc        patched copy of github.com/CorentinB/warc v0.8.76 (dial / DNS / file seams)
  third_party/gocrawlhq   patched copy of github.com/internetarchive/gocrawlhq v1.2.31 (websocket dial seam)
  overlay/...             patched copies of four runtime files + overlay.json (select tie-break, map order, goid)
Every edit is an exact-text replacement that must match exactly once; anything else exits 2.
"""
import json, os, shutil, stat, subprocess, sys

VERIF = os.path.dirname(os.path.dirname(os.path.abspath(__file__)))
BUILD = os.path.join(VERIF, ".build")
GOROOT = "/opt/veriftools/go1.26.8"
MODCACHE = subprocess.run(["go", "env", "GOMODCACHE"], capture_output=True, text=True,
                          env=dict(os.environ, GOTOOLCHAIN="local")).stdout.strip() or "/root/go/pkg/mod"


def die(msg):
    print("setup: " + msg, file=sys.stderr)
    sys.exit(2)


def replace_once(path, old, new, count=1):
    s = open(path).read()
    n = s.count(old)
    if n != count:
        die(f"{path}: expected {count} occurrence(s) of {old!r}, found {n}")
    open(path, "w").write(s.replace(old, new))


def copy_module(src, dst):
    if not os.path.isdir(src):
        die(f"module source missing: {src}")
    if os.path.exists(dst):
        shutil.rmtree(dst)
    shutil.copytree(src, dst)
    for root, dirs, files in os.walk(dst):
        for n in dirs + files:
            p = os.path.join(root, n)
            os.chmod(p, os.stat(p).st_mode | stat.S_IWUSR)
    # tests and commands of the copied module are not needed
    for root, dirs, files in os.walk(dst):
        for n in files:
            if n.endswith("_test.go"):
                os.remove(os.path.join(root, n))
    for d in ("cmd", "testdata"):
        p = os.path.join(dst, d)
        if os.path.isdir(p):
            shutil.rmtree(p)


def patch_warc():
    dst = os.path.join(BUILD, "third_party", "warc")
    copy_module(os.path.join(MODCACHE, "github.com/!corentin!b/warc@v0.8.76"), dst)
    open(os.path.join(dst, "sim_seam.go"), "w").write('''package warc

import (
	"context"
	"io"
	"net"
	"os"
)

// Seams used by the deterministic simulation harness. All nil by default:
// with nil seams the behaviour is the shipped one.
var (
	// SimDialContext replaces net.Dialer.DialContext for direct (non-proxy) connections.
	SimDialContext func(ctx context.Context, network, address string) (net.Conn, error)
	// SimLookupIP replaces the DNS exchange for one record type ("A" / "AAAA").
	SimLookupIP func(ctx context.Context, host string, recordType string) (net.IP, error)
	// SimFileWrapper wraps every WARC output file.
	SimFileWrapper func(f *os.File) io.Writer
)

func simWrapFile(f *os.File) io.Writer {
	if SimFileWrapper != nil {
		return SimFileWrapper(f)
	}
	return f
}
''')
    d = os.path.join(dst, "dialer.go")
    replace_once(d, "\t\tconn, err = d.DialContext(ctx, network, address)\n",
                 "\t\tif SimDialContext != nil {\n\t\t\tconn, err = SimDialContext(ctx, network, address)\n\t\t} else {\n\t\t\tconn, err = d.DialContext(ctx, network, address)\n\t\t}\n")
    replace_once(d, "\t\tplainConn, err = d.DialContext(ctx, network, address)\n",
                 "\t\tif SimDialContext != nil {\n\t\t\tplainConn, err = SimDialContext(ctx, network, address)\n\t\t} else {\n\t\t\tplainConn, err = d.DialContext(ctx, network, address)\n\t\t}\n")
    dn = os.path.join(dst, "dns.go")
    replace_once(dn, "\tm := new(dns.Msg)\n",
                 "\tif SimLookupIP != nil {\n\t\trt := \"A\"\n\t\tif recordType == dns.TypeAAAA {\n\t\t\trt = \"AAAA\"\n\t\t}\n\t\treturn SimLookupIP(ctx, address, rt)\n\t}\n\tm := new(dns.Msg)\n")
    w = os.path.join(dst, "warc.go")
    replace_once(w, "NewWriter(warcFile, ", "NewWriter(simWrapFile(warcFile), ", count=4)
    return dst


def patch_gocrawlhq():
    dst = os.path.join(BUILD, "third_party", "gocrawlhq")
    copy_module(os.path.join(MODCACHE, "github.com/internetarchive/gocrawlhq@v1.2.31"), dst)
    open(os.path.join(dst, "sim_seam.go"), "w").write('''package gocrawlhq

import (
	"context"
	"net"
)

// SimNetDial, when set, replaces the TCP dial of the websocket connection.
var SimNetDial func(ctx context.Context, network, addr string) (net.Conn, error)
''')
    replace_once(os.path.join(dst, "websocket.go"),
                 "\t\tHeader: ws.HandshakeHeaderHTTP(headers),\n",
                 "\t\tHeader: ws.HandshakeHeaderHTTP(headers),\n\t\tNetDial: SimNetDial,\n")
    return dst


def make_overlay():
    od = os.path.join(BUILD, "overlay")
    if os.path.exists(od):
        shutil.rmtree(od)
    os.makedirs(od)
    rep = {}

    def take(rel):
        src = os.path.join(GOROOT, "src", rel)
        if not os.path.isfile(src):
            die(f"missing {src}")
        dst = os.path.join(od, rel.replace("/", "__"))
        shutil.copyfile(src, dst)
        rep[src] = dst
        return dst

    sel = take("runtime/select.go")
    replace_once(sel, "\t\tj := cheaprandn(uint32(norder + 1))\n",
                 "\t\tj := simSelectRand(uint32(norder+1), uint32(i))\n")
    rnd = take("runtime/rand.go")
    replace_once(rnd, "func maps_rand() uint64 {\n\treturn rand()\n}\n",
                 "func maps_rand() uint64 {\n\tif b := simBias.Load(); b != 0 {\n\t\treturn simMix(b)\n\t}\n\treturn rand()\n}\n")
    alg = take("runtime/alg.go")
    replace_once(alg, "\t\thashkey[i] = uintptr(bootstrapRand())\n", "\t\thashkey[i] = uintptr(simFixedKey(i))\n")
    replace_once(alg, "\t\tkey[i] = bootstrapRand()\n", "\t\tkey[i] = simFixedKey(i)\n")
    syn = take("runtime/synctest.go")
    # package-level sync.WaitGroups (watchers' wait groups in Zeno) can never be associated with a bubble in
    # stock Go, which makes Wait on them non-durable and would stall the simulator whenever the goroutine
    # they wait for is parked at a hook. With SimBubbleGlobals(true) they count as members of the current bubble.
    replace_once(syn, "\t\t// We can't attach a special to it, so always consider it unbubbled.\n\t\treturn bubbleAssocUnbubbled\n",
                 "\t\t// We can't attach a special to it, so always consider it unbubbled.\n\t\tif simGlobals.Load() != 0 {\n\t\t\treturn bubbleAssocCurrentBubble\n\t\t}\n\t\treturn bubbleAssocUnbubbled\n")
    replace_once(syn, "func synctest_disassociate(p unsafe.Pointer) {\n",
                 "func synctest_disassociate(p unsafe.Pointer) {\n\tif spanOfHeap(uintptr(p)) == nil {\n\t\treturn\n\t}\n")
    newf = os.path.join(od, "runtime__zsim.go")
    open(newf, "w").write('''package runtime

import "internal/runtime/atomic"

// Added by the Zeno verification harness (build overlay only).
// With a bias of 0 select and map iteration keep their stock randomness.

var simBias atomic.Uint64

// SimSetBias makes every select tie-break and map iteration start a pure
// function of b (until the next call).
func SimSetBias(b uint64) { simBias.Store(b) }

var simGlobals atomic.Uint32

// SimBubbleGlobals makes package-level variables count as members of the current synctest bubble.
func SimBubbleGlobals(on bool) {
	if on {
		simGlobals.Store(1)
	} else {
		simGlobals.Store(0)
	}
}

// SimGoid returns the id of the calling goroutine.
func SimGoid() uint64 { return getg().goid }

func simMix(x uint64) uint64 {
	x += 0x9e3779b97f4a7c15
	x = (x ^ (x >> 30)) * 0xbf58476d1ce4e5b9
	x = (x ^ (x >> 27)) * 0x94d049bb133111eb
	return x ^ (x >> 31)
}

func simSelectRand(n, i uint32) uint32 {
	b := simBias.Load()
	if b == 0 {
		return cheaprandn(n)
	}
	return uint32(((simMix(b+uint64(i)*0x632be59bd9b4e019) >> 32) * uint64(n)) >> 32)
}

func simFixedKey(i int) uint64 {
	return simMix(0x5a65_6e6f_5369_6d00 + uint64(i))
}
''')
    rep[os.path.join(GOROOT, "src", "runtime", "zsim.go")] = newf
    json.dump({"Replace": rep}, open(os.path.join(BUILD, "overlay.json"), "w"), indent=1)


def main():
    os.makedirs(os.path.join(BUILD, "third_party"), exist_ok=True)
    os.makedirs(os.path.join(BUILD, "wazero-cache"), exist_ok=True)
    patch_warc()
    patch_gocrawlhq()
    make_overlay()
    print("setup: patched copies and overlay written under", BUILD)


main()
