#!/usr/bin/env python3
"""Re-runs every filed seeded change against the check(s) that detected it (or its own property's check) and reports
which are still detected with the current harness.  usage: regress_seeded.py [Cxx ...]   (needs exclusive use of /repo)"""
import json, os, re, subprocess, sys, glob
only = set(sys.argv[1:])
rows = []
for d in sorted(glob.glob("/verif/seeded/C*-m*"), key=lambda p: (p.split("/")[-1].split("-")[0], int(p.split("-m")[-1]))):
    name = os.path.basename(d)
    prop = name.split("-")[0]
    if only and prop not in only:
        continue
    meta = json.load(open(os.path.join(d, "meta.json")))
    checks = []
    for x in meta.get("detected_by", []):
        m = re.match(r"(C\d\d)", x)
        if m and m.group(1) not in checks:
            checks.append(m.group(1))
    if not checks:
        checks = [prop]
    if subprocess.run(["git", "-C", "/repo", "apply", "--check", os.path.join(d, "patch.diff")], capture_output=True).returncode != 0:
        print(f"{name}: patch no longer applies (the code it changed was rewritten by a fix)", flush=True)
        continue
    out = subprocess.run(["/verif/scripts/trymutant.sh", os.path.join(d, "patch.diff")] + checks, capture_output=True, text=True).stdout
    sigs = sorted(set(re.findall(r"signature=(.+?) seed=", out)))
    ok = "VIOLATION property=" in out
    print(f"{name}: {'detected' if ok else 'MISSED'} by {'+'.join(checks)} {sigs[:3]}", flush=True)
