#!/usr/bin/env python3
"""One-off helper used to insert verifhook call lines into /repo (add-only).

Usage: addhooks.py spec.py   where spec.py defines HOOKS = [(file, anchor, where, line, nth), ...]
 - anchor: exact stripped text of an existing line
 - where: 'after' | 'before'
 - line: text to insert (indentation copied from anchor, plus optional leading tabs in line)
 - nth: which occurrence of anchor (1-based)
Also adds the verifhook import to each touched file.
"""
import re, sys, runpy, collections

IMPORT = '\t"github.com/internetarchive/Zeno/internal/pkg/verifhook"\n'

def main():
    spec = runpy.run_path(sys.argv[1])
    hooks = spec["HOOKS"]
    byfile = collections.OrderedDict()
    for h in hooks:
        byfile.setdefault(h[0], []).append(h)
    for f, hs in byfile.items():
        path = "/repo/" + f
        lines = open(path).read().split("\n")
        for (_, anchor, where, text, nth) in hs:
            idxs = [i for i, l in enumerate(lines) if l.strip() == anchor and "verifhook." not in l]
            if len(idxs) < nth:
                raise SystemExit(f"{f}: anchor not found (nth={nth}): {anchor!r} (found {len(idxs)})")
            i = idxs[nth - 1]
            indent = re.match(r"[\t ]*", lines[i]).group(0)
            extra = ""
            while text.startswith("\t"):
                extra += "\t"; text = text[1:]
            while text.startswith("<"):  # dedent one
                indent = indent[:-1]; text = text[1:]
            new = indent + extra + text
            if where == "after":
                lines.insert(i + 1, new)
            else:
                lines.insert(i, new)
        src = "\n".join(lines)
        if "internal/pkg/verifhook" not in src:
            # add import into the first import block
            m = re.search(r'import \(\n', src)
            if not m:
                raise SystemExit(f"{f}: no import block")
            end = src.index("\n)", m.end())
            block = src[m.end():end]
            k = block.find('\t"github.com/internetarchive/Zeno/')
            pos = m.end() + k if k >= 0 else end + 1
            if k < 0:
                src = src[:pos] + "\n" + IMPORT + src[pos:]
            else:
                src = src[:pos] + IMPORT + src[pos:]
        open(path, "w").write(src)
        print("patched", f, len(hs))

main()
