F = "internal/pkg/reactor/reactor.go"
HOOKS = [
 # ReceiveFeedback
 (F, 'item.SetSource(models.ItemSourceFeedback)', 'before', 'verifhook.At("reactor.feedback.enter", item)', 1),
 (F, '_, loaded := globalReactor.stateTable.Swap(item.GetID(), item)', 'after', 'verifhook.At("reactor.feedback.swapped", item, loaded)', 1),
 (F, 'return ErrFeedbackItemNotPresent', 'before', 'verifhook.Obs("reactor.feedback.rejected", item)', 1),
 (F, 'return ErrReactorShuttingDown', 'before', 'verifhook.Obs("reactor.feedback.shutdown", item)', 1),
 (F, 'return ErrReactorFrozen', 'before', 'verifhook.Obs("reactor.feedback.frozen", item)', 1),
 (F, 'case globalReactor.input <- item:', 'after', '\tverifhook.Obs("reactor.feedback.sent", item)', 1),
 # ReceiveInsert
 (F, 'select {', 'before', 'verifhook.At("reactor.insert.enter", item)', 2),
 (F, 'return ErrReactorShuttingDown', 'before', 'verifhook.Obs("reactor.insert.shutdown", item)', 2),
 (F, 'return ErrReactorFrozen', 'before', 'verifhook.Obs("reactor.insert.frozen", item)', 2),
 (F, 'case globalReactor.tokenPool <- struct{}{}:', 'after', '\tverifhook.At("reactor.insert.token", item)', 1),
 (F, 'globalReactor.input <- item', 'before', 'verifhook.At("reactor.insert.stored", item)', 1),
 (F, 'globalReactor.input <- item', 'after', 'verifhook.Obs("reactor.insert.sent", item)', 1),
 # MarkAsFinished
 (F, 'if _, loaded := globalReactor.stateTable.LoadAndDelete(item.GetID()); loaded {', 'before', 'verifhook.At("reactor.finish.enter", item)', 1),
 (F, '<-globalReactor.tokenPool', 'before', 'verifhook.At("reactor.finish.deleted", item)', 1),
 (F, '<-globalReactor.tokenPool', 'after', 'verifhook.Obs("reactor.finish.released", item)', 1),
 (F, 'return ErrFinisehdItemNotFound', 'before', 'verifhook.Obs("reactor.finish.rejected", item)', 1),
 # run
 (F, 'if ok {', 'after', '\tverifhook.At("reactor.run.recv", item)', 1),
 (F, 'case r.output <- item:', 'after', '\tverifhook.Obs("reactor.run.sent", item)', 1),
 # Freeze / Stop
 (F, 'globalReactor.freezeCancel()', 'after', 'verifhook.Obs("reactor.frozen")', 1),
 (F, 'globalReactor.cancel()', 'before', 'verifhook.At("reactor.stop.enter")', 1),
 (F, 'globalReactor.cancel()', 'after', 'verifhook.Obs("reactor.stop.cancelled")', 1),
]
