H = "internal/pkg/source/hq/hq.go"
HC = "internal/pkg/source/hq/consumer.go"
HF = "internal/pkg/source/hq/finisher.go"
HP = "internal/pkg/source/hq/producer.go"
HS = "internal/pkg/source/hq/seencheck.go"
HW = "internal/pkg/source/hq/websocket.go"
HOOKS = [
 (H, 'globalHQ.cancel()', 'before', 'verifhook.At("hq.stop.enter")', 1),
 (H, 'seedsToReset := reactor.GetStateTable()', 'before', 'verifhook.At("hq.stop.reset")', 1),
 (H, 'logger.Debug("reset seed", "id", seed)', 'after', 'verifhook.Obs("hq.stop.reset.one", seed)', 1),
 (HC, 'URLs, err := getURLs(batchSize)', 'before', 'verifhook.At("hq.fetch.get")', 1),
 (HC, 'URLs, err := getURLs(batchSize)', 'after', 'verifhook.At("hq.fetch.got", URLs, err)', 1),
 (HC, 'case URL := <-urlBuffer:', 'after', '\tverifhook.At("hq.sender.recv", URL)', 1),
 (HC, 'globalHQ.finishCh <- newItem', 'before', 'verifhook.At("hq.sender.discard", newItem)', 1),
 (HC, 'err = reactor.ReceiveInsert(newItem)', 'after', 'verifhook.Obs("hq.sender.inserted", newItem, err)', 1),
 (HF, 'case item := <-globalHQ.finishCh:', 'after', '\tverifhook.At("hq.fin.recv", item)', 1),
 (HF, 'case <-ticker.C:', 'after', '\tverifhook.At("hq.fin.tick", len(batch.URLs))', 1),
 (HF, 'copyBatch := *batch', 'after', 'verifhook.At("hq.fin.cut", "size", copyBatch.URLs)', 1),
 (HF, 'copyBatch := *batch', 'after', 'verifhook.At("hq.fin.cut", "timer", copyBatch.URLs)', 2),
 (HF, 'case batch := <-batchCh:', 'after', '\tverifhook.At("hq.fin.dispatch", batch.URLs)', 1),
 (HF, 'err := globalHQ.client.Delete(context.TODO(), batch.URLs, batch.ChildsCaptured)', 'before', 'verifhook.At("hq.fin.delete", batch.URLs)', 1),
 (HF, 'err := globalHQ.client.Delete(context.TODO(), batch.URLs, batch.ChildsCaptured)', 'after', 'verifhook.At("hq.fin.deleted", batch.URLs, err)', 1),
 (HP, 'case item := <-globalHQ.produceCh:', 'after', '\tverifhook.At("hq.prod.recv", item)', 1),
 (HP, 'case <-ticker.C:', 'after', '\tverifhook.At("hq.prod.tick", len(batch.URLs))', 1),
 (HP, 'copyBatch := *batch', 'after', 'verifhook.At("hq.prod.cut", "size", copyBatch.URLs)', 1),
 (HP, 'copyBatch := *batch', 'after', 'verifhook.At("hq.prod.cut", "timer", copyBatch.URLs)', 2),
 (HP, 'case batch := <-batchCh:', 'after', '\tverifhook.At("hq.prod.dispatch", batch.URLs)', 1),
 (HP, 'err := globalHQ.client.Add(context.TODO(), batch.URLs, false) // Use bypassSeencheck = false', 'before', 'verifhook.At("hq.prod.send", batch.URLs)', 1),
 (HP, 'err := globalHQ.client.Add(context.TODO(), batch.URLs, false) // Use bypassSeencheck = false', 'after', 'verifhook.At("hq.prod.sent", batch.URLs, err)', 1),
 (HS, 'outputURLs, err := globalHQ.client.Seencheck(context.TODO(), URLsToSeencheck)', 'before', 'verifhook.At("hq.seen.ask", item, URLsToSeencheck)', 1),
 (HS, 'outputURLs, err := globalHQ.client.Seencheck(context.TODO(), URLsToSeencheck)', 'after', 'verifhook.At("hq.seen.answer", item, outputURLs, err)', 1),
 (HS, 'items[i].SetStatus(models.ItemSeen)', 'after', 'verifhook.Obs("hq.seen.skip", items[i])', 1),
 (HW, '<-identifyTicker.C', 'after', 'verifhook.At("hq.ws.tick")', 1),
]
