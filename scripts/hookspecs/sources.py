L = "internal/pkg/source/lq/lq.go"
LC = "internal/pkg/source/lq/consumer.go"
LF = "internal/pkg/source/lq/finisher.go"
LP = "internal/pkg/source/lq/producer.go"
PA = "internal/pkg/controler/pause/pause.go"
WD = "internal/pkg/controler/watchers/disk.go"
WW = "internal/pkg/controler/watchers/warc.go"
CP = "internal/pkg/controler/pipeline.go"
SC = "internal/pkg/preprocessor/seencheck/seencheck.go"
RL = "internal/pkg/archiver/ratelimiter/ratelimiter.go"
RA = "internal/pkg/archiver/ratelimiter/adjust.go"
RM = "internal/pkg/archiver/ratelimiter/manager.go"
HOOKS = [
 # ---- lq.Stop
 (L, 'globalLQ.cancel()', 'before', 'verifhook.At("lq.stop.enter")', 1),
 (L, 'seedsToReset := reactor.GetStateTable()', 'before', 'verifhook.At("lq.stop.reset")', 1),
 (L, 'logger.Debug("reset seed", "id", seed)', 'after', 'verifhook.Obs("lq.stop.reset.one", seed)', 1),
 # ---- lq consumer
 (LC, 'URLs, err := getURLs(batchSize)', 'before', 'verifhook.At("lq.fetch.get")', 1),
 (LC, 'URLs, err := getURLs(batchSize)', 'after', 'verifhook.At("lq.fetch.got", URLs, err)', 1),
 (LC, 'case URL := <-urlBuffer:', 'after', '\tverifhook.At("lq.sender.recv", URL)', 1),
 (LC, 'globalLQ.finishCh <- newItem', 'before', 'verifhook.At("lq.sender.discard", newItem)', 1),
 (LC, 'err = reactor.ReceiveInsert(newItem)', 'after', 'verifhook.Obs("lq.sender.inserted", newItem, err)', 1),
 # ---- lq finisher
 (LF, 'case item := <-globalLQ.finishCh:', 'after', '\tverifhook.At("lq.fin.recv", item)', 1),
 (LF, 'case <-ticker.C:', 'after', '\tverifhook.At("lq.fin.tick", len(batch.URLs))', 1),
 (LF, 'copyBatch := *batch', 'after', 'verifhook.At("lq.fin.cut", "size", copyBatch.URLs)', 1),
 (LF, 'copyBatch := *batch', 'after', 'verifhook.At("lq.fin.cut", "timer", copyBatch.URLs)', 2),
 (LF, 'case batch := <-batchCh:', 'after', '\tverifhook.At("lq.fin.dispatch", batch.URLs)', 1),
 (LF, 'err := globalLQ.client.Delete(context.TODO(), batch.URLs, false)', 'before', 'verifhook.At("lq.fin.delete", batch.URLs)', 1),
 (LF, 'err := globalLQ.client.Delete(context.TODO(), batch.URLs, false)', 'after', 'verifhook.At("lq.fin.deleted", batch.URLs, err)', 1),
 # ---- lq producer
 (LP, 'case item := <-globalLQ.produceCh:', 'after', '\tverifhook.At("lq.prod.recv", item)', 1),
 (LP, 'case <-ticker.C:', 'after', '\tverifhook.At("lq.prod.tick", len(batch.URLs))', 1),
 (LP, 'copyBatch := *batch', 'after', 'verifhook.At("lq.prod.cut", "size", copyBatch.URLs)', 1),
 (LP, 'copyBatch := *batch', 'after', 'verifhook.At("lq.prod.cut", "timer", copyBatch.URLs)', 2),
 (LP, 'case batch := <-batchCh:', 'after', '\tverifhook.At("lq.prod.add", batch.URLs)', 1),
 (LP, 'logger.Error("failed to send batch to LQ", "error", err)', 'after', 'verifhook.Obs("lq.prod.add.error", batch.URLs, err)', 1),
 # ---- pause
 (PA, 'manager.subscribers.Store(chans, struct{}{})', 'after', 'verifhook.Obs("pause.subscribe", chans)', 1),
 (PA, 'manager.subscribers.Delete(chans)', 'after', 'verifhook.Obs("pause.unsubscribe", chans)', 1),
 (PA, 'swap := manager.isPaused.CompareAndSwap(false, true)', 'before', 'verifhook.At("pause.pause.enter")', 1),
 (PA, 'swap := manager.isPaused.CompareAndSwap(false, true)', 'after', 'verifhook.At("pause.pause.cas", swap)', 1),
 (PA, 'stats.PausedSet()', 'before', 'verifhook.At("pause.pause.broadcast")', 1),
 (PA, 'var wg sync.WaitGroup', 'before', 'verifhook.At("pause.resume.enter")', 1),
 (PA, 'wg.Wait()', 'after', 'verifhook.At("pause.resume.acked")', 1),
 (PA, 'stats.PausedReset()', 'after', 'verifhook.Obs("pause.resume.done")', 1),
 # ---- watchers
 (WD, 'total := stat.Blocks * uint64(stat.Bsize)', 'before', 'verifhook.Statfs(&stat)', 1),
 (WD, 'case <-ticker.C:', 'after', '\tverifhook.At("disk.tick")', 1),
 (WD, 'err := CheckDiskUsage(path)', 'after', 'verifhook.Obs("disk.verdict", err, paused)', 1),
 (WD, 'defer logger.Debug("closed")', 'before', 'verifhook.Obs("disk.exit", paused)', 1),
 (WD, 'diskWatcherCancel()', 'before', 'verifhook.At("disk.stop.enter")', 1),
 (WW, 'case <-pauseTicker.C:', 'after', '\tverifhook.At("wwq.tick")', 1),
 (WW, 'queueSize := archiver.GetWARCWritingQueueSize()', 'after', 'verifhook.Obs("wwq.verdict", queueSize, maxQueueSize, paused)', 1),
 (WW, 'wwqCancel()', 'before', 'verifhook.At("wwq.stop.enter")', 1),
 # ---- controler stopPipeline
 (CP, 'watchers.StopDiskWatcher()', 'before', 'verifhook.At("stop.step", "begin")', 1),
 (CP, 'reactor.Freeze()', 'before', 'verifhook.At("stop.step", "freeze")', 1),
 (CP, 'preprocessor.Stop()', 'before', 'verifhook.At("stop.step", "preprocessor")', 1),
 (CP, 'archiver.Stop()', 'before', 'verifhook.At("stop.step", "archiver")', 1),
 (CP, 'postprocessor.Stop()', 'before', 'verifhook.At("stop.step", "postprocessor")', 1),
 (CP, 'finisher.Stop()', 'before', 'verifhook.At("stop.step", "finisher")', 1),
 (CP, 'finisher.Stop()', 'after', 'verifhook.At("stop.step", "source")', 1),
 (CP, 'reactor.Stop()', 'before', 'verifhook.At("stop.step", "reactor")', 1),
 (CP, 'reactor.Stop()', 'after', 'verifhook.Obs("stop.step", "done")', 1),
 # ---- seencheck
 (SC, 'found, foundType := isSeen(hash)', 'before', 'verifhook.At("seen.check", items[i], URLType)', 1),
 (SC, 'found, foundType := isSeen(hash)', 'after', 'verifhook.At("seen.result", items[i], URLType, found, foundType)', 1),
 (SC, 'seen(hash, URLType)', 'after', 'verifhook.Obs("seen.recorded", items[i], URLType)', 1),
 (SC, 'seen(hash, "seed")', 'after', 'verifhook.Obs("seen.recorded", items[i], "seed")', 1),
 (SC, 'items[i].SetStatus(models.ItemSeen)', 'after', 'verifhook.Obs("seen.skip", items[i], URLType, foundType)', 1),
 # ---- ratelimiter
 (RL, 'tb.mu.Lock()', 'before', 'verifhook.At("rl.poll")', 1),
 (RL, 'tb.tokens--', 'after', 'verifhook.Obs("rl.take", tb.tokens, tb.capacity, tb.refillRate, tb.idealRate, tb.penaltyUntil, tb.failureCount)', 1),
 (RL, 'tb.lastRefill = now', 'after', 'verifhook.Obs("rl.refill", tb.tokens, tb.capacity, tb.refillRate, tb.idealRate, tb.penaltyUntil, tb.failureCount)', 1),
 (RA, 'default:', 'before', 'verifhook.Obs("rl.failure", statusCode, tb.tokens, tb.capacity, tb.refillRate, tb.idealRate, tb.penaltyUntil, tb.failureCount)', 1),
 (RA, 'now := tb.nowFunc()', 'after', 'defer func() { verifhook.Obs("rl.adjusted", tb.tokens, tb.capacity, tb.refillRate, tb.idealRate, tb.penaltyUntil, tb.failureCount) }()', 1),
 (RA, 'now := tb.nowFunc()', 'after', 'defer func() { verifhook.Obs("rl.adjusted", tb.tokens, tb.capacity, tb.refillRate, tb.idealRate, tb.penaltyUntil, tb.failureCount) }()', 2),
 (RM, 'start := time.Now()', 'before', 'verifhook.At("rl.wait.enter", host)', 1),
 (RM, 'mb.bucket.Wait()', 'before', 'verifhook.Obs("rl.wait.bucket", host, mb.bucket)', 1),
 (RM, 'mb.bucket.Wait()', 'after', 'verifhook.Obs("rl.wait.done", host, mb.bucket)', 1),
 (RM, 'mb.bucket.adjustOnFailure(statusCode)', 'before', 'verifhook.Obs("rl.adjust.failure", host, statusCode, mb.bucket)', 1),
 (RM, 'mb.bucket.onSuccess()', 'before', 'verifhook.Obs("rl.adjust.success", host, mb.bucket)', 1),
 (RM, 'bm.buckets[host] = mb', 'after', 'verifhook.Obs("rl.bucket.create", host, len(bm.buckets), bm.maxBuckets)', 1),
 (RM, 'delete(bm.buckets, lfuKey)', 'after', 'verifhook.Obs("rl.bucket.evict", lfuKey)', 1),
 (RM, 'delete(bm.buckets, host)', 'after', 'verifhook.Obs("rl.bucket.cleanup", host)', 1),
 (RM, 'case <-ticker.C:', 'after', '\tverifhook.At("rl.cleanup.tick")', 1),
]
