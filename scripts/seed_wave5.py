#!/usr/bin/env python3
"""Wave-5 layout (/tmp/mut5/Ax/out/mK, property named on README line 2): run each change against its property's check and file it under seeded/."""
import json, os, re, shutil, subprocess, sys, glob
root = sys.argv[1]
text = {json.loads(l)["id"]: json.loads(l) for l in open("/verif/properties.jsonl")}
head = subprocess.run(["git", "-C", "/repo", "log", "--format=%h", "-1"], capture_output=True, text=True).stdout.strip()
for a in sorted(d for d in os.listdir(root) if re.fullmatch(r"[AB]\d", d)):
    conf = {}
    cl = os.path.join(root, a + ".confirm.log")
    for line in (open(cl).read().splitlines() if os.path.exists(cl) else []):
        m = re.match(r"RESULT (\S+) suite_with_patch=(\S+) demo_with_patch=(\S+) demo_without_patch=(\S+)", line)
        if m:
            conf[os.path.basename(m.group(1))] = m.groups()[1:]
    wave = "5" if a[0] == "A" else "6"
    for k in (1, 2, 3):
        src = os.path.join(root, a, "out", f"m{k}")
        if not os.path.exists(os.path.join(src, "patch.diff")):
            continue
        readme = open(os.path.join(src, "README.md")).read().splitlines()
        p = readme[1].split()[1]
        out = subprocess.run(["/verif/scripts/trymutant.sh", os.path.join(src, "patch.diff"), p], capture_output=True, text=True).stdout
        det, cur = [], None
        for line in out.splitlines():
            m = re.match(r"VIOLATION property=(C\d\d)", line)
            if m:
                cur = m.group(1)
            m2 = re.search(r"oracle=(\S+) signature=(.+?) seed=", line)
            if m2 and cur:
                d = f"{cur} ({m2.group(2)})"
                if d not in det:
                    det.append(d)
                cur = None
        idx = 1
        while os.path.exists(f"/verif/seeded/{p}-m{idx}"):
            idx += 1
        dst = f"/verif/seeded/{p}-m{idx}"
        os.makedirs(dst)
        shutil.copy(os.path.join(src, "patch.diff"), os.path.join(dst, "patch.diff"))
        shutil.copy(os.path.join(src, "demo_test.go"), os.path.join(dst, "demo_test.go.txt"))
        shutil.copy(os.path.join(src, "README.md"), os.path.join(dst, "README.md"))
        fl = readme[0].split()
        c = conf.get(f"m{k}", ("?", "?", "?"))
        meta = {
            "property": p, "breaks": f"{p}: {text[p]['title']}",
            "needs_to_manifest": "see README.md (written by the author of the change)",
            "author": f"independent sub-agent (wave {wave}, focus area {a}) given the texts of all 19 properties and a scratch worktree of /repo (no access to /verif); it chose the property",
            "confirmed": {"how": f"scripts/confirm_mutant.sh in the scratch worktree {root}/{a}: patch applies, go build ./... ok, existing suite passes with the patch, demo (copied into {fl[1]}, go test -run {fl[2]}) fails with the patch and passes without it", "suite_with_patch": c[0], "demo_with_patch": c[1], "demo_without_patch": c[2]},
            "demo": {"copy_to": fl[1] + "/", "run": f"GOFLAGS=-mod=mod go test -vet=off -count=1 -run '{fl[2]}' ./{fl[1]}/"},
            "checks_run": [f"./vcheck {p} --tier quick (seed 1), change applied with git -C /repo apply and reverted afterwards"],
            "detected_by": det,
            "base_commit_of_patch": f"{head} or earlier",
        }
        if not det:
            meta["note"] = "NOT DETECTED - see DESIGN.md A.7 for the reason"
        json.dump(meta, open(os.path.join(dst, "meta.json"), "w"), indent=1)
        print(f"{a}/m{k} -> {os.path.basename(dst)}: {'DETECTED ' + '; '.join(det) if det else 'MISSED'}", flush=True)
