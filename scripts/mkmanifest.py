#!/usr/bin/env python3
"""Writes /verif/MANIFEST.json from the table below (kept in one place so it stays valid)."""
import json, os, subprocess

HERE = os.path.dirname(os.path.dirname(os.path.abspath(__file__)))
props = [json.loads(l) for l in open(os.path.join(HERE, "properties.jsonl"))]
ids = [p["id"] for p in props]

E2E_NOTE = ("Trusted base: Go 1.26.8 testing/synctest (fake clock, quiescence), the hook-point scheduler in /verif/sim, the three-file runtime overlay "
            "(select tie-break, map order, package-level WaitGroups), the patched copy of the warc module (dial/DNS/file seams only). Interleavings are explored at hook-point "
            "granularity; un-hooked helper goroutines run to quiescence inside a quantum. Evidence over sampled seeds, not proof.")
TECH = "deterministic simulation with fault injection: seeded schedule/fault search over the real pipeline under a simulator-owned clock, network, scheduler"

# id -> (category, engine, text, design_ref, technique-suffix)
CHECKS = {
 "C01": ("exploration", "e2e", "Seeded search over generated sites x configurations x schedules of the whole pipeline; oracle: every seed taken from the queue is reported finished exactly once, only when no node of its tree is unfetched/unprocessed and all planted tree URLs were requested before the finish event; reactor table = accepted-unfinished at every quiescent point. Also under the stop / pause enumeration of C03 (whatever is reported finished during shutdown has a finished tree; a seed the reactor released was reported to the queue) and against the local queue's DELETE (one successful delete per finished row).", "DESIGN.md 4/C01"),
 "C02": ("exploration", "e2e", "Seeded search over body sizes/framings/encodings/statuses x WARC pool/dedupe/discard settings x schedules; an independent WARC reader scans the job's files at every finish event and compares request/response/revisit records with the bytes the simulated origin actually sent (SHA-1, length, status); discarded responses must be absent. A third of the cases starve the WARC writer (as a whole or a fifth of the individual writes); the stop / pause enumeration of C03 runs under this oracle too.", "DESIGN.md 4/C02"),
 "C03": ("fault_enumeration", "e2e", "Per sampled scenario and configuration-matrix point (proxy/direct, sync/async WARC, limiter, workers, pool, seencheck) a profiling run enumerates the pipeline's progress events; one run per (event kind, occurrence) issues controler.Stop() there, plus stops while paused (operator, disk watchdog), during resume, at start and after drain. Oracle: Stop() returns within a simulated-time bound, no crash, no .open file, every WARC file parses to EOF as complete records with intact request/response pairs.", "DESIGN.md 4/C03"),
 "C04": ("fault_enumeration", "e2e", "Two real OS processes per case: the first is SIGKILLed at an enumerated (instrumented point, occurrence), inside WARC write #k with a torn tail, or at a seeded scheduler step (or stopped gracefully); the second restarts on the same job directory, fault-free, to quiescence. Oracle: rows not reported finished are handed out and requested again and none stays CLAIMED; rows deleted as finished have their accepted captures in the WARC files left on disk; those files parse record by record up to a torn tail of an .open file only.", "DESIGN.md 4/C04"),
 "C05": ("exploration", "e2e", "Seeded search over filter sets x URL texts planted as seeds, redirect targets and assets; every request and every connection that reaches the simulated network is judged by a reference scope predicate written from the statement.", "DESIGN.md 4/C05"),
 "C06": ("exploration", "e2e", "Seeded search over adversarial origins (redirect chains/loops, nested resources, always-failing URLs) x limits; oracle over the origin log and queue hand-offs: chain length, asset depth, attempts per visit, pipeline passes, hop arithmetic.", "DESIGN.md 4/C06"),
 "C07": ("exploration", "e2e", "Generated HTML documents (attribute x quoting x reference form x nesting x decoys) crawled end to end; planted requisites, resolved by an independent resolver, must be requested before the page's seed is finished; anchors must reach the queue.", "DESIGN.md 4/C07"),
 "C08": ("exploration", "e2e", "Every seen-store check observed in simulated crawls is judged against a reference model of completed records stamped with scheduler steps (completed-before-started must be honoured; seen only if recorded; seen implies skipped; no URL fetched by two non-seed nodes of one tree).", "DESIGN.md 4/C08"),
 "C09": ("exploration", "e2e", "Every canonical URL flowing through simulated crawls is re-rendered from fresh objects under other simulator-owned map-iteration orders, re-normalised (idempotence), shape-checked, and compared with the request line the origin received.", "DESIGN.md 4/C09"),
 "C11": ("exploration", "e2e", "Monitor at every stage boundary of simulated crawls: independent well-formedness of the item tree via public getters, uniqueness after de-duplication, and 'declared complete <=> no node awaits fetching or post-processing' at the finisher's decision.", "DESIGN.md 4/C11"),
 "C12": ("exploration", "comp", "Component simulation of the reactor API under concurrent producers/consumers/freeze with simulator-owned select tie-breaks: bounded in-flight seeds, table = accepted-unfinished, feedback/finish semantics incl. unknown ids and repeats, delivery of accepted seeds, no insert after freeze, no deadlock. Runs on a statement-level instrumented copy of the package (rejected insert leaves nothing tracked, tokens in use = tracked seeds when every call has returned); a second simulation drives the real package with 3 000 - 66 000 tokens, all in flight, nobody reading (blocking decided by quiescence).", "DESIGN.md 4/C12"),
 "C13": ("exploration", "comp", "Component simulation of the per-host limiter on the fake clock: window bound on release instants, penalty lower bounds and cap, state ranges from limiter snapshots, over capacities/rates/streaks/gaps and concurrent waiters. Runs on a statement-level instrumented copy; a caller-side oracle (a Wait entered after a throttling report returned is not released within 5 s unless the host's bucket was dropped) also applies under LFU eviction, and, with its own pipeline cases (throttled hosts on explicit ports), to the archiver's use of the limiter.", "DESIGN.md 4/C13"),
 "C14": ("exploration", "comp", "Component simulation of the pause manager with worker-shaped subscribers and several independent controllers running matched/unmatched pause/resume scripts, worker exits and shutdown: every call returns, no work between acknowledgement and resume, resume wakes all. Runs on a statement-level instrumented copy; includes cycles with no subscriber and an exact model for a single controller; the pause / resume / stop cases of C03's enumeration (plus resume-then-pause-at-once) run under an oracle on the real stage workers.", "DESIGN.md 4/C14"),
 "C17": ("exploration", "e2e", "Component simulation on a statement-level instrumented copy of the stats package re-generated from /repo at every run (yield before every statement, nested calls hoisted, non-atomic read-modify-write split, simulator-aware mutex): 2-6 concurrent clients, end state compared with a sequential model. Plus conservation in simulated crawls: totals (URLs crawled, seeds finished), worker gauges (live workers while running, 0 after stop) and the mean response time are compared with ground truth counted from hook events at idle and after stop. Prometheus exporter on in a third of the component iterations; the stop / pause enumeration of C03 checks 'zero after stop' on every worker exit path.", "DESIGN.md 4/C17"),
 "C10": ("exploration", "e2e", "The simulated origin is the adversary: generated and mutated bodies of every declared type plus hostile Location/Link/Content-Type/Content-Encoding headers and lying lengths, crawled next to well-behaved bystander seeds. A crash of the process, a goroutine still running inside input processing at the wall-clock limit, a seed never finished or a bystander URL never fetched is a violation.", "DESIGN.md 4/C10"),
 "C15": ("fault_enumeration", "e2e", "Crawls with outlinks against a simulated stateful crawl HQ under generated per-call fault sequences (5xx, reset before/after apply, timeout) or against the local sqlite queue; once idle, the multiset of (text, via, hops) and finish ids emitted by the pipeline is compared with what the queue applied; hops/via must survive the round trip back into a seed.", "DESIGN.md 4/C15"),
 "C18": ("exploration", "e2e", "The real disk watchdog loop on the fake clock with a seeded free-space history behind the statfs seam: every tick verdict and every pause/resume is compared with an exact rational reference; the start-up decision is compared on boundary-biased (total, free, setting) triples, with monotonicity on every pair.", "DESIGN.md 4/C18"),
 "C19": ("exploration", "e2e", "Generated JSON/XML/RSS/sitemap/M3U8 documents with URLs planted by construction must be fetched as assets or queued as outlinks according to their extension; a stateful simulated S3-style service (both listing APIs, delimiter, zero-size keys, page sizes 1-7) must be walked through queue -> seed -> fetch until every non-empty object is queued, with a bounded number of listing requests.", "DESIGN.md 4/C19"),
 "C16": ("exploration", "e2e", "Paired simulated crawls with N and 4N generated seeds under the same configuration: 31 simulated minutes after the queue drained the process footprint is sampled (reactor table, limiter buckets, temp directory, /proc/self/fd by class, goroutines by entry function); absolute requirements on each run and equality between the two. The statement-level limiter simulation also runs under this property and judges the table bound at every insertion.", "DESIGN.md 4/C16"),
}

NA_REASON = "check under construction in this round; see DESIGN.md section 4 for the planned simulation"

def main():
    hooks_commits = subprocess.run(["git", "-C", "/repo", "log", "--format=%h %s"], capture_output=True, text=True).stdout.splitlines()
    src = [l.split()[0] for l in hooks_commits if l.split(" ", 1)[1].startswith("verif:")]
    checks = []
    for pid in ids:
        if pid not in CHECKS:
            continue
        cat, engine, text, ref = CHECKS[pid]
        checks.append({
            "property_id": pid,
            "quick_cmd": f"./vcheck {pid} --tier quick",
            "thorough_cmd": f"./vcheck {pid} --tier thorough",
            "evidence_file": f"evidence/{pid}.json",
            "replay_cmd_template": f"./vcheck {pid} --replay {{path}}",
            "engine": engine,
            "level_claimed": {"category": cat, "text": text, "design_ref": ref},
            "level_note": E2E_NOTE,
            "technique": TECH,
        })
    na = [{"property_id": pid, "reason": NA.get(pid, NA_REASON)} for pid in ids if pid not in CHECKS]
    m = {
        "version": 1,
        "setup_cmd": "./scripts/setup.sh",
        "hooks": {
            "guard": "verif",
            "enable": "go1.26.8 test -c -tags verif -overlay .build/overlay.json ./sim (harness go.mod replaces Zeno => /repo and uses patched copies of warc/gocrawlhq; see DESIGN.md 3.5-3.7)",
            "baseline_off_cmd": "cd /repo && GOFLAGS=-mod=mod go test -vet=off -count=1 -timeout 25m ./...",
            "source_commits": src,
            "add_only": True,
        },
        "engines": [
            {"name": "e2e", "path": "sim/", "serves_properties": [c["property_id"] for c in checks if c["engine"] == "e2e"],
             "kind_free_text": "whole Zeno pipeline (controler.Start..Stop) in one testing/synctest bubble per OS process, hook-point scheduler, simulated network/origin, real sqlite/leveldb/WARC files"},
            {"name": "comp", "path": "sim/", "serves_properties": [c["property_id"] for c in checks if c["engine"] == "comp"],
             "kind_free_text": "component simulations (reactor, pause manager, rate limiter, stats, seen-store, HQ batching) under the same kernel, many bubbles per process"},
        ],
        "checks": checks,
        "not_applicable": na,
        "notes": "vcheck rebuilds the simulation binary from /repo's working tree on every invocation (go1.26.8, -tags verif). Exit 2 = build/harness trouble, never a violation.",
    }
    json.dump(m, open(os.path.join(HERE, "MANIFEST.json"), "w"), indent=1)
    print("MANIFEST.json:", len(checks), "checks,", len(na), "not claimed")

NA = {}
main()
