#!/bin/sh
# Runs every thorough check (or those named in $PROPS) in sequence (used with `vp run`); prints one summary line per property.
cd "$(dirname "$0")/.."
for P in ${PROPS:-C01 C02 C03 C04 C05 C06 C07 C08 C09 C10 C11 C12 C13 C14 C15 C16 C17 C18 C19}; do
  ./vcheck $P --tier thorough > /tmp/thor_$P.log 2>&1
  echo "== $P exit=$?"; grep "^VIOLATION\|^KNOWN\|^$P:\|vcheck:" -A3 /tmp/thor_$P.log | cut -c1-600 | head -30
done
