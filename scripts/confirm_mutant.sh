#!/bin/sh
# usage: confirm_mutant.sh <worktree> <mutant dir (contains patch.diff, demo_test.go)> <package dir relative to worktree> <go test -run pattern>
# Confirms in the scratch worktree: patch applies, builds, existing suite passes with it, demo fails with it and passes without.
WT=$1; M=$2; PKG=$3; PAT=$4
cd "$WT" || exit 2
export GOFLAGS=-mod=mod
git checkout -q -- . ; rm -f "$PKG/zz_demo_test.go"
git apply "$M/patch.diff" || { echo "RESULT apply=FAIL"; exit 1; }
go build ./... || { echo "RESULT build=FAIL"; git checkout -q -- .; exit 1; }
SUITE=ok
go test -vet=off -count=1 $(go list ./... | grep -v '/out') > "$M/suite_with_patch.log" 2>&1 || SUITE=FAIL
cp "$M/demo_test.go" "$PKG/zz_demo_test.go"
WITH=pass
go test -vet=off -count=1 -run "$PAT" "./$PKG/" > "$M/demo_with_patch.log" 2>&1 || WITH=fail
git checkout -q -- .
WITHOUT=pass
go test -vet=off -count=1 -run "$PAT" "./$PKG/" > "$M/demo_without_patch.log" 2>&1 || WITHOUT=fail
rm -f "$PKG/zz_demo_test.go"
echo "RESULT $M suite_with_patch=$SUITE demo_with_patch=$WITH demo_without_patch=$WITHOUT"
