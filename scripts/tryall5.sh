#!/bin/sh
# usage: tryall5.sh <root> <Ax>  — wave-5 layout: the property each change breaks is named on line 2 of its README ("PROPERTY: Cxx")
ROOT=$1; A=$2
for M in "$ROOT/$A"/out/m*; do
  [ -f "$M/patch.diff" ] || continue
  P=$(sed -n 2p "$M/README.md" | awk '{print $2}')
  R=$(/verif/scripts/trymutant.sh "$M/patch.diff" $P 2>&1)
  echo "#### $A/$(basename $M) [$P]: $(echo "$R" | grep -c '^VIOLATION') violation lines; $(echo "$R" | grep '== ' | tr '\n' ' ')"
  echo "$R" | grep -A2 "^VIOLATION" | cut -c1-420 | head -9
done
