#!/bin/sh
# Runs every quick check in sequence; prints one summary line per property. usage: all_quick.sh [seed]
cd "$(dirname "$0")/.."
S=${1:-1}
for P in C01 C02 C03 C04 C05 C06 C07 C08 C09 C10 C11 C12 C13 C14 C15 C16 C17 C18 C19; do
  OUT=$(./vcheck $P --tier quick --seed $S 2>&1); CODE=$?
  echo "== $P exit=$CODE $(echo "$OUT" | grep "^$P:")"
  echo "$OUT" | grep -A3 "^VIOLATION\|^vcheck:" | cut -c1-700 | head -24
done
