#!/bin/sh
# usage: tryall.sh <root> <Cxx> [extra checks...] — runs the property's quick check (plus extras) against every confirmed out/m* of <root>/<Cxx>
ROOT=$1; P=$2; shift; shift
for M in "$ROOT/$P"/out/m*; do
  [ -f "$M/patch.diff" ] || continue
  R=$(/verif/scripts/trymutant.sh "$M/patch.diff" $P "$@" 2>&1)
  echo "#### $P/$(basename $M): $(echo "$R" | grep -c '^VIOLATION') violation lines; $(echo "$R" | grep '== ' | tr '\n' ' ')"
  echo "$R" | grep -A2 "^VIOLATION" | cut -c1-420 | head -9
done
