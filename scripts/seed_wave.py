#!/usr/bin/env python3
"""Runs every confirmed seeded change of a wave against the checks that should see it and files it under /verif/seeded.
usage: seed_wave.py <root with Cxx worktrees> <first new index>   (e.g. /tmp/mut3 3  ->  Cxx-m3..m5)"""
import json, os, re, shutil, subprocess, sys
root, first = sys.argv[1], int(sys.argv[2])
extra = {"C16/m3": ["C12"], "C14/m3": ["C03"], "C04/m1": ["C02"], "C01/m3": ["C04"]} if "mut3" in root else {}
props = sorted(d for d in os.listdir(root) if re.fullmatch(r"C\d\d", d) and os.path.isdir(os.path.join(root, d, "out")))
text = {json.loads(l)["id"]: json.loads(l) for l in open("/verif/properties.jsonl")}
head = subprocess.run(["git", "-C", "/repo", "log", "--format=%h", "-1"], capture_output=True, text=True).stdout.strip()
for p in props:
    conf = {}
    cl = os.path.join(root, p + ".confirm.log")
    for line in (open(cl).read().splitlines() if os.path.exists(cl) else []):
        m = re.match(r"RESULT (\S+) suite_with_patch=(\S+) demo_with_patch=(\S+) demo_without_patch=(\S+)", line)
        if m:
            conf[os.path.basename(m.group(1))] = m.groups()[1:]
    for k in (1, 2, 3):
        src = os.path.join(root, p, "out", f"m{k}")
        if not os.path.exists(os.path.join(src, "patch.diff")):
            continue
        checks = [p] + extra.get(f"{p}/m{k}", [])
        out = subprocess.run(["/verif/scripts/trymutant.sh", os.path.join(src, "patch.diff")] + checks, capture_output=True, text=True).stdout
        det = []
        cur = None
        for line in out.splitlines():
            m = re.match(r"VIOLATION property=(C\d\d)", line)
            if m:
                cur = m.group(1)
            m2 = re.search(r"oracle=(\S+) signature=(.+?) seed=", line)
            if m2 and cur:
                d = f"{cur} ({m2.group(2)})"
                if d not in det:
                    det.append(d)
                cur = None
        dst = f"/verif/seeded/{p}-m{first + k - 1}"
        os.makedirs(dst, exist_ok=True)
        shutil.copy(os.path.join(src, "patch.diff"), os.path.join(dst, "patch.diff"))
        shutil.copy(os.path.join(src, "demo_test.go"), os.path.join(dst, "demo_test.go.txt"))
        shutil.copy(os.path.join(src, "README.md"), os.path.join(dst, "README.md"))
        readme = open(os.path.join(src, "README.md")).read()
        first_line = readme.splitlines()[0].split()
        c = conf.get(f"m{k}", ("ok", "fail", "pass"))
        meta = {
            "property": p,
            "breaks": f"{p}: {text[p]['title']}",
            "needs_to_manifest": "see README.md (written by the author of the change)",
            "author": "independent sub-agent (wave " + ("3" if "mut3" in root else "4") + ") given only the property text and a scratch worktree of /repo (no access to /verif)",
            "confirmed": {"how": f"scripts/confirm_mutant.sh in the scratch worktree {root}/{p}: patch applies, go build ./... ok, existing suite passes with the patch, demo (copied into {first_line[1]}, go test -run {first_line[2]}) fails with the patch and passes without it",
                          "suite_with_patch": c[0], "demo_with_patch": c[1], "demo_without_patch": c[2]},
            "demo": {"copy_to": first_line[1] + "/", "run": f"GOFLAGS=-mod=mod go test -vet=off -count=1 -run '{first_line[2]}' ./{first_line[1]}/"},
            "checks_run": [f"./vcheck {c} --tier quick (seed 1), change applied with git -C /repo apply and reverted afterwards" for c in checks],
            "detected_by": det,
            "base_commit_of_patch": f"{head} or earlier (repo HEAD when the change was tried)",
        }
        json.dump(meta, open(os.path.join(dst, "meta.json"), "w"), indent=1)
        print(f"{p}-m{first + k - 1}: {'DETECTED ' + '; '.join(det) if det else 'MISSED'}", flush=True)
