#!/bin/sh
# usage: trymutant.sh <patch.diff> <Cxx> [more Cxx...]   (optional env RUNS=n, TIER=quick|thorough)
# Applies a seeded change to /repo, runs the given checks, always reverts /repo afterwards.
PATCH=$1; shift
cd /repo || exit 2
if ! git diff --quiet; then echo "trymutant: /repo is dirty" >&2; exit 2; fi
git apply "$PATCH" || { echo "trymutant: patch does not apply" >&2; exit 2; }
# evidence and replay files written while a seeded change is applied are not evidence about /repo: keep them out of /verif
SAVE=$(mktemp -d /tmp/trymutant.XXXXXX)
cp -a /verif/evidence "$SAVE/evidence"; mkdir -p /verif/replays; ls /verif/replays > "$SAVE/replays.before"
trap 'git -C /repo checkout -- . ; git -C /repo clean -fdq internal pkg cmd 2>/dev/null; rm -rf /verif/evidence; mv "$SAVE/evidence" /verif/evidence; for f in $(ls /verif/replays); do grep -qx "$f" "$SAVE/replays.before" || { mkdir -p /tmp/mutant-replays; mv "/verif/replays/$f" /tmp/mutant-replays/ 2>/dev/null; }; done; rm -rf "$SAVE"' EXIT
cd /verif
for P in "$@"; do
  ARGS="--tier ${TIER:-quick}"
  [ -n "$RUNS" ] && ARGS="$ARGS --runs $RUNS"
  OUT=$(VERIF_SEED=${VERIF_SEED:-1} ./.build/vcheck $P $ARGS 2>&1)
  CODE=$?
  echo "== $P exit=$CODE"
  echo "$OUT" | grep -A3 "^VIOLATION\|^KNOWN\|^$P:\|^vcheck:" | cut -c1-400 | head -24
done
