#!/bin/sh
# usage: confirm_all.sh <dir with Cxx worktrees> <Cxx>   — confirms every out/m* of one property's scratch worktree (sequentially)
ROOT=$1; P=$2
for M in "$ROOT/$P"/out/m*; do
  [ -f "$M/patch.diff" ] || continue
  LINE=$(head -1 "$M/README.md")
  PKG=$(echo "$LINE" | awk '{print $2}'); PAT=$(echo "$LINE" | awk '{print $3}')
  /verif/scripts/confirm_mutant.sh "$ROOT/$P" "$M" "$PKG" "$PAT" 2>&1 | tail -1
done
