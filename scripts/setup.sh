#!/bin/sh
# Offline setup: patched third-party copies, runtime overlay, orchestrator binary, warm caches.
set -e
cd "$(dirname "$0")/.."
export GOFLAGS=-mod=mod GOPROXY=off GOSUMDB=off GOTOOLCHAIN=local
python3 scripts/setup.py || exit 2
go1.26.8 build -o .build/vcheck ./cmd/vcheck || exit 2
./.build/vcheck warm || exit 2
echo "setup: ok"
