#!/bin/sh
# Offline setup: patched third-party copies, runtime overlay, orchestrator binary.
set -e
cd "$(dirname "$0")/.."
export GOFLAGS=-mod=mod GOPROXY=off GOSUMDB=off GOTOOLCHAIN=local
python3 scripts/setup.py || exit 2
cp /repo/go.sum go.sum.repo 2>/dev/null || true
go1.26.8 build -o .build/vcheck ./cmd/vcheck || exit 2
echo "setup: ok"
