package scen

import (
	"encoding/json"
	"fmt"
	"net/url"
	"strings"
)

// GenHTML draws a scenario for C07: HTML documents whose page requisites are planted by construction.
func GenHTML(t *Tape) *Scenario {
	g := NewGen(t, "html", "C07")
	c := &crawlGen{Gen: g, o: CrawlOpts{Prop: "C07"}}
	cfg := &g.Sc.Cfg
	cfg.Workers = 1 + c.N(3)
	cfg.MaxConcurrentAssets = 1 + c.N(4)
	cfg.MaxRetry = 0
	cfg.MaxRedirect = 2
	cfg.Seencheck = c.Chance(1, 2)
	cfg.PoolSize = 1
	cfg.DiscardStatus = []int{429}
	cfg.MaxHops = c.N(3)
	cfg.CaptureAlternate = c.Chance(1, 3)
	cfg.DisableAssetsCapture = c.Chance(1, 10)
	switch c.N(6) {
	case 0:
		cfg.DisableHTMLTag = []string{"img"}
	case 1:
		cfg.DisableHTMLTag = []string{"link", "script"}
	case 2:
		cfg.DisableHTMLTag = []string{"source", "video", "audio", "style"}
	case 3:
		cfg.DisableHTMLTag = []string{"a"}
	}
	disabled := func(tag string) bool {
		for _, d := range cfg.DisableHTMLTag {
			if d == tag {
				return true
			}
		}
		return false
	}
	anchors := map[string][]string{}
	nPages := 1 + c.N(3)
	for pi := 0; pi < nPages; pi++ {
		host := c.Host()
		if c.Chance(1, 3) {
			host += c.Pick(":8080", ":8443", ":81") // pages served on an explicit non-default port
		}
		other := c.Host()
		dir := "/" + c.Name("d") + "/" + c.Name("s") + "/"
		pagePath := dir + c.Name("page") + ".html"
		pageURL := "http://" + host + pagePath
		base, _ := url.Parse(pageURL)
		// the queue row is the page itself, or a URL that redirects to it (the page is then one redirect behind its seed)
		seedURL := pageURL
		if c.Chance(1, 3) {
			gp := "/go/" + c.Name("r")
			seedURL = "http://" + host + gp
			c.res(host, gp, seedURL, 0, Must, Redirect(c.PickInt(301, 302, 307), pagePath))
		}
		var head, body strings.Builder
		quote := func(v string) string {
			switch c.N(3) {
			case 0:
				return `"` + v + `"`
			case 1:
				return `'` + v + `'`
			default:
				if strings.ContainsAny(v, " \t'\"=<>`") {
					return `"` + v + `"`
				}
				return v
			}
		}
		// plant returns a reference text for a fresh target and registers the expectation
		plant := func(tag string, ext string, must bool) string {
			name := c.Name("r") + ext
			var ref string
			switch c.N(8) {
			case 0:
				ref = "http://" + host + "/abs/" + name
			case 1:
				ref = "/root/" + name
			case 2:
				ref = name
			case 3:
				ref = "./sub/" + name
			case 4:
				ref = "../" + name
			case 5:
				ref = "../../../" + name
			case 6:
				ref = "//" + other + "/cdn/" + name
			default:
				ref = "sub/deeper/../" + name + "?v=" + fmt.Sprint(c.N(90))
			}
			pu, err := url.Parse(ref)
			if err != nil {
				return ref
			}
			abs := base.ResolveReference(pu)
			target := abs.RequestURI()
			exp := May
			if must && !disabled(tag) && !cfg.DisableAssetsCapture {
				exp = Must
			}
			ct, b := "image/png", Bin(60+c.N(100), c.Uid())
			switch ext {
			case ".css":
				ct, b = "text/css", Lit("p{margin:0}")
			case ".js":
				ct, b = "application/javascript", Lit("var a=1;")
			case ".mp4", ".mp3":
				ct = "application/octet-stream"
			}
			r := c.res(abs.Host, target, seedURL, 1, exp, OK(ct, b))
			r.Tags["c07"] = tag
			r.Tags["ref"] = ref
			return ref
		}
		n := 3 + c.N(10)
		for i := 0; i < n; i++ {
			switch c.N(13) {
			case 0, 1:
				body.WriteString(`<div><p><img alt=x src=` + quote(plant("img", ".png", true)) + `></p></div>`)
			case 2:
				body.WriteString(`<img srcset=` + `"` + plant("img", ".png", true) + ` 1x, ` + plant("img", ".png", true) + ` 2x">`)
			case 3:
				head.WriteString(`<script src=` + quote(plant("script", ".js", true)) + `></script>`)
			case 4:
				head.WriteString(`<link rel="stylesheet" href=` + quote(plant("link", ".css", true)) + `>`)
			case 5:
				head.WriteString(`<link rel="icon" href=` + quote(plant("link", ".png", true)) + `>`)
			case 6:
				must := cfg.CaptureAlternate
				head.WriteString(`<link rel="alternate" href=` + quote(plant("link", ".xml", must)) + `>`)
			case 7:
				body.WriteString(`<picture><source srcset="` + plant("source", ".png", true) + ` 480w, ` + plant("source", ".png", true) + ` 800w"><img src=` + quote(plant("img", ".png", true)) + `></picture>`)
			case 8:
				body.WriteString(`<video controls src=` + quote(plant("video", ".mp4", true)) + `></video>`)
			case 9:
				body.WriteString(`<audio src=` + quote(plant("audio", ".mp3", true)) + `></audio><video><source src=` + quote(plant("source", ".mp4", true)) + `></video>`)
			case 10:
				q := c.Pick(`'`, `"`, ``)
				head.WriteString(`<style>.a{background:url(` + q + plant("style", ".png", true) + q + `)} .b{color:red}</style>`)
			case 11:
				body.WriteString(`<div style="background-image: url('` + plant("style-attr", ".png", true) + `'); width: 10px"></div>`)
			default:
				// decoys: text that merely looks like a reference
				body.WriteString(`<p>see img src="/decoy/` + c.Name("x") + `.png" and <!-- <img src="/comment/` + c.Name("y") + `.png"> --></p>`)
			}
		}
		// anchors
		na := c.N(4)
		for i := 0; i < na; i++ {
			name := c.Name("out") + ".html"
			ref := c.Pick("/pages/"+name, name, "../"+name, "http://"+other+"/"+name)
			pu, _ := url.Parse(ref)
			abs := base.ResolveReference(pu)
			c.res(abs.Host, abs.RequestURI(), "", 0, May, OK("text/html", Lit("<html><body>out</body></html>")))
			if c.Chance(1, 4) {
				body.WriteString(`<a href="` + c.Pick("http://h.example:abc/x", "%zz", "http://[::1", "http://h.example/%") + `">broken</a>`) // an anchor no parser accepts costs only itself
			}
			body.WriteString(`<a href=` + quote(ref) + `>t</a>`)
			if cfg.MaxHops > 0 && !disabled("a") {
				anchors[seedURL] = append(anchors[seedURL], abs.String())
			}
		}
		if na > 0 && c.Chance(1, 3) {
			body.WriteString(`<a href="` + c.Pick("http://h.example:abc/x", "%zz", "http://[::1") + `">broken, last on the page</a>`)
		}
		doc := "<!DOCTYPE html><html><head><meta charset=\"utf-8\"><title>t</title>" + head.String() + "</head><body>" + body.String() + "</body></html>"
		c.res(host, pagePath, seedURL, 0, Must, OK("text/html; charset=utf-8", Lit(doc)))
		g.Sc.Queue = append(g.Sc.Queue, c.row(seedURL))
	}
	b, _ := json.Marshal(anchors)
	g.Sc.Extra = map[string]string{"anchors": string(b)}
	g.Sc.StopAtIdle = true
	g.Sc.Sched.MaxSteps = 80000
	g.Sc.Sched.MaxSimSec = 4 * 3600
	return g.Sc
}
