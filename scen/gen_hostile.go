package scen

import (
	"bytes"
	"encoding/json"
	"fmt"
	"strings"
)

// BuildPDF renders a small, valid PDF with one page and link annotations to the given URIs.
func BuildPDF(uris []string) []byte {
	var objs []string
	annots := ""
	for i := range uris {
		annots += fmt.Sprintf("%d 0 R ", 5+i)
	}
	objs = append(objs, "<< /Type /Catalog /Pages 2 0 R >>")
	objs = append(objs, "<< /Type /Pages /Kids [3 0 R] /Count 1 >>")
	objs = append(objs, "<< /Type /Page /Parent 2 0 R /MediaBox [0 0 200 200] /Contents 4 0 R /Annots ["+annots+"] >>")
	stream := "BT /F1 12 Tf 10 100 Td (hello) Tj ET"
	objs = append(objs, fmt.Sprintf("<< /Length %d >>\nstream\n%s\nendstream", len(stream), stream))
	for _, u := range uris {
		objs = append(objs, "<< /Type /Annot /Subtype /Link /Rect [0 0 50 50] /A << /S /URI /URI ("+u+") >> >>")
	}
	var buf bytes.Buffer
	buf.WriteString("%PDF-1.4\n%\xe2\xe3\xcf\xd3\n")
	offs := make([]int, len(objs))
	for i, o := range objs {
		offs[i] = buf.Len()
		fmt.Fprintf(&buf, "%d 0 obj\n%s\nendobj\n", i+1, o)
	}
	xref := buf.Len()
	fmt.Fprintf(&buf, "xref\n0 %d\n0000000000 65535 f \n", len(objs)+1)
	for _, o := range offs {
		fmt.Fprintf(&buf, "%010d 00000 n \n", o)
	}
	fmt.Fprintf(&buf, "trailer\n<< /Size %d /Root 1 0 R >>\nstartxref\n%d\n%%%%EOF\n", len(objs)+1, xref)
	return buf.Bytes()
}

// Mutate damages a valid sample in one of several structure-unaware ways.
func Mutate(g *Gen, b []byte) []byte {
	out := append([]byte(nil), b...)
	n := 1 + g.N(3)
	for i := 0; i < n && len(out) > 0; i++ {
		switch g.N(9) {
		case 0: // truncate
			out = out[:g.N(len(out))]
		case 1: // splice a piece of itself somewhere else
			a, c := g.N(len(out)), g.N(len(out))
			if a > c {
				a, c = c, a
			}
			piece := append([]byte(nil), out[a:c]...)
			at := g.N(len(out))
			out = append(out[:at:at], append(piece, out[at:]...)...)
		case 2: // bit flips
			for j := 0; j < 1+g.N(8); j++ {
				out[g.N(len(out))] ^= byte(1 << uint(g.N(8)))
			}
		case 3: // NULs
			at := g.N(len(out))
			out = append(out[:at:at], append(bytes.Repeat([]byte{0}, 1+g.N(16)), out[at:]...)...)
		case 4: // invalid UTF-8
			at := g.N(len(out))
			out = append(out[:at:at], append([]byte{0xff, 0xfe, 0xc0, 0x80, 0xed, 0xa0, 0x80}, out[at:]...)...)
		case 5: // huge repetition of a short piece
			a := g.N(len(out))
			c := a + 1 + g.N(8)
			if c > len(out) {
				c = len(out)
			}
			piece := bytes.Repeat(out[a:c], 2000+g.N(6000))
			out = append(out[:a:a], append(piece, out[a:]...)...)
		case 6: // swap two halves
			h := len(out) / 2
			out = append(append([]byte(nil), out[h:]...), out[:h]...)
		case 7: // numbers become enormous
			out = bytes.ReplaceAll(out, []byte("1"), []byte("99999999999999999999"))
		default: // drop a slice
			a, c := g.N(len(out)), g.N(len(out))
			if a > c {
				a, c = c, a
			}
			out = append(out[:a:a], out[c:]...)
		}
	}
	if len(out) > 3<<20 {
		out = out[:3<<20]
	}
	return out
}

// GenHostile draws a scenario for C10: hostile bodies and headers next to well-behaved bystander seeds.
func GenHostile(t *Tape) *Scenario {
	g := NewGen(t, "hostile", "C10")
	c := &crawlGen{Gen: g, o: CrawlOpts{Prop: "C10"}}
	cfg := &g.Sc.Cfg
	cfg.Workers = 1 + c.N(3)
	cfg.MaxConcurrentAssets = 1 + c.N(3)
	cfg.MaxRetry = c.N(2)
	cfg.MaxRedirect = 1 + c.N(3)
	cfg.Seencheck = c.Chance(1, 2)
	cfg.PoolSize = 1
	cfg.DiscardStatus = []int{429}
	cfg.MaxHops = c.PickInt(0, 1, 1, 2)
	// no client-side HTTP timeout: under an adversarial schedule a timeout could legitimately fail a bystander page
	// bystanders: must be crawled completely whatever the hostile documents do
	nBy := 1 + c.N(2)
	for i := 0; i < nBy; i++ {
		host := c.Host()
		p := "/" + c.Name("ok") + "/index.html"
		v := URL(host, p)
		c.reliable = true
		c.page(host, p, v, 1+c.N(3), cfg, nil).Tags["bystander"] = "1"
		c.reliable = false
		for _, r := range g.Sc.Site {
			if r.Seed == v {
				r.Tags["bystander"] = "1"
			}
		}
		g.Sc.Queue = append(g.Sc.Queue, c.row(v))
	}
	target := "http://" + c.Host() + "/t/" + c.Name("x") + ".png"
	samples := map[string]struct {
		ct   string
		body []byte
	}{
		"html":    {"text/html", []byte(`<!DOCTYPE html><html><head><base href="/b/"><link rel="stylesheet" href="a.css"><style>.x{background:url('bg.png')}</style><script type="application/json">{"u":"` + target + `"}</script><script>var cfg = {"img":"` + target + `"};</script><meta content="` + target + `"></head><body><div style="background-image:url(x.png)" data-item='{"a":"` + target + `"}'><img src="i.png" srcset="a.png 1x, b.png 2x"><a href="/next" onclick="window.location='/w'">n</a><video src="v.mp4"></video></div></body></html>`)},
		"json":    {"application/json", []byte(`{"a":{"b":[{"c":"` + target + `"},[1,2,{"d":"` + target + `"}]],"s":"{\"e\":\"` + target + `\"}"},"n":1,"t":true,"z":null}`)},
		"xml":     {"application/xml", []byte(`<?xml version="1.0"?><r xmlns:x="http://ns.example/"><i href="` + target + `"><x:t>` + target + `</x:t><![CDATA[` + target + `]]></i></r>`)},
		"sitemap": {"application/xml", []byte(`<?xml version="1.0"?><urlset xmlns="http://www.sitemaps.org/schemas/sitemap/0.9"><url><loc>` + target + `</loc></url></urlset>`)},
		"s3":      {"application/xml", []byte(`<?xml version="1.0"?><ListBucketResult><Name>b</Name><Prefix></Prefix><Marker></Marker><IsTruncated>true</IsTruncated><Contents><Key>k1</Key><Size>10</Size></Contents><CommonPrefixes><Prefix>p/</Prefix></CommonPrefixes><NextContinuationToken>tok</NextContinuationToken></ListBucketResult>`)},
		"m3u8":    {"application/vnd.apple.mpegurl", []byte("#EXTM3U\n#EXT-X-VERSION:3\n#EXT-X-TARGETDURATION:10\n#EXT-X-MEDIA:TYPE=AUDIO,GROUP-ID=\"a\",NAME=\"e\",URI=\"" + target + "\"\n#EXT-X-STREAM-INF:BANDWIDTH=1,AUDIO=\"a\"\n" + target + "\n#EXTINF:10.0,\n" + target + "\n#EXT-X-ENDLIST\n")},
		"pdf":     {"application/pdf", BuildPDF([]string{target, "http://10.3.3.3/from-pdf"})},
		"plain":   {"text/plain", []byte("see " + target + " and http://10.3.3.3/plain?x=1&y=2 or www.example.com/path\n")},
	}
	// structure-aware hostile values: attribute and URL shapes that parsers meet in the wild
	srcsets := []string{"", ",", " ", " , ", ",,,", "a.png 1x,", "a.png 1x , ", "a.png,,b.png 2x", ", a.png", "a.png 1x,\n", "\t", "a.png 1x, , b.png 2x"}
	oddURLs := []string{target + "?a=1&&b=2", target + "?&a=1", target + "?a=1;b=2", target + "?a=%zz", target + "?a=%", target + "?=", target + "?&", target + "?;", target + "?a=1&b=2&", "http://10.3.3.3/p?x=%00&y", "http://10.3.3.3/%", "http://10.3.3.3/%zz/a.png", "http://10.3.3.3:/a.png", "http://10.3.3.3/a.png#", "//10.3.3.3//a.png", "http://10.3.3.3/a b.png", "/\\10.3.3.3/a.png", "http://10.3.3.3/" + strings.Repeat("a/", 600), "?", "#", "./././", "../../../../..", "http://10.3.3.3/a.png?" + strings.Repeat("k=v&", 400)}
	crafted := func() []byte {
		var sb strings.Builder
		sb.WriteString("<!DOCTYPE html><html><head>")
		for i := 0; i < 1+c.N(4); i++ {
			u := oddURLs[c.N(len(oddURLs))]
			switch c.N(5) {
			case 0:
				sb.WriteString(`<link rel="stylesheet" href="` + u + `">`)
			case 1:
				sb.WriteString(`<script src="` + u + `"></script>`)
			case 2:
				sb.WriteString(`<meta content="` + u + `">`)
			case 3:
				sb.WriteString(`<style>.a{background:url(` + u + `)}</style>`)
			default:
				sb.WriteString(`<script type="application/json">{"u":"` + strings.ReplaceAll(u, `\`, `\\`) + `"}</script>`)
			}
		}
		sb.WriteString("</head><body>")
		for i := 0; i < 1+c.N(5); i++ {
			ss := srcsets[c.N(len(srcsets))]
			switch c.N(5) {
			case 0:
				sb.WriteString(`<img srcset="` + ss + `">`)
			case 1:
				sb.WriteString(`<img data-srcset="` + ss + `" src="` + oddURLs[c.N(len(oddURLs))] + `">`)
			case 2:
				sb.WriteString(`<picture><source srcset="` + ss + `"><source data-srcset="` + ss + `"></picture>`)
			case 3:
				sb.WriteString(`<a href="` + oddURLs[c.N(len(oddURLs))] + `" onclick="window.location='` + oddURLs[c.N(len(oddURLs))] + `'">x</a>`)
			default:
				sb.WriteString(`<div style="background-image:url(` + oddURLs[c.N(len(oddURLs))] + `)" data-item='{"a":["` + ss + `"]}'></div>`)
			}
		}
		sb.WriteString("</body></html>")
		return []byte(sb.String())
	}
	kinds := []string{"html", "json", "xml", "sitemap", "s3", "m3u8", "pdf", "plain", "html-crafted", "html-crafted", "json-crafted", "sitemap-crafted", "s3-crafted", "s3-crafted"}
	nHostile := 1 + c.N(4)
	for i := 0; i < nHostile; i++ {
		host := c.Host()
		kind := kinds[c.N(len(kinds))]
		var s struct {
			ct   string
			body []byte
		}
		var body []byte
		switch kind {
		case "html-crafted":
			s.ct, body = "text/html", crafted()
			kind = "html"
		case "json-crafted":
			u1, u2 := oddURLs[c.N(len(oddURLs))], oddURLs[c.N(len(oddURLs))]
			jb, _ := json.Marshal(map[string]any{"a": u1, "b": []string{u2, "http://10.3.3.3/x.png"}, "c": map[string]string{"d": u1}})
			s.ct, body = "application/json", jb
			kind = "json"
		case "s3-crafted":
			// listings that are legal XML and legal S3 answers, in the shapes extractors tend to forget
			var sb strings.Builder
			sb.WriteString(`<?xml version="1.0"?><ListBucketResult><Name>b</Name>`)
			sb.WriteString("<Prefix>" + c.Pick("", "p/", "p/q/") + "</Prefix>")
			if c.Chance(1, 2) {
				sb.WriteString("<Marker>" + c.Pick("", "k1", "p/") + "</Marker>")
			}
			sb.WriteString("<IsTruncated>" + c.Pick("true", "true", "false", "TRUE", "") + "</IsTruncated>")
			for j, n := 0, c.PickInt(0, 0, 1, 2); j < n; j++ { // often no object at all on a truncated page (only common prefixes)
				sb.WriteString("<Contents><Key>" + c.Pick("", "k"+fmt.Sprint(j), "p/k "+fmt.Sprint(j), "../k", "%zz", strings.Repeat("d/", 300)+"k") + "</Key><Size>" + c.Pick("0", "10", "-1", "x", "99999999999999999999") + "</Size></Contents>")
			}
			for j, n := 0, c.N(3); j < n; j++ {
				sb.WriteString("<CommonPrefixes>")
				for l, m := 0, c.N(3); l < m; l++ {
					sb.WriteString("<Prefix>" + c.Pick("", "p/", "p/q"+fmt.Sprint(j)+"/", "%zz/", "a b/") + "</Prefix>")
				}
				sb.WriteString("</CommonPrefixes>")
			}
			if c.Chance(1, 2) {
				sb.WriteString("<NextContinuationToken>" + c.Pick("", "tok", "a+b/=", "%zz") + "</NextContinuationToken>")
			}
			sb.WriteString("</ListBucketResult>")
			s.ct, body = "application/xml", []byte(sb.String())
			kind = "s3"
		case "sitemap-crafted":
			var sb strings.Builder
			sb.WriteString(`<?xml version="1.0"?><urlset xmlns="http://www.sitemaps.org/schemas/sitemap/0.9">`)
			for j := 0; j < 1+c.N(4); j++ {
				sb.WriteString("<url><loc>" + strings.NewReplacer("&", "&amp;", "<", "&lt;").Replace(oddURLs[c.N(len(oddURLs))]) + "</loc></url>")
			}
			sb.WriteString("</urlset>")
			s.ct, body = "application/xml", []byte(sb.String())
			kind = "sitemap"
		default:
			sm := samples[kind]
			s.ct, s.body = sm.ct, sm.body
			body = s.body
			if !c.Chance(1, 6) {
				body = Mutate(g, body)
			}
		}
		hdr := [][2]string{{"Content-Type", s.ct}}
		if kind == "s3" {
			hdr = append(hdr, [2]string{"Server", "AmazonS3"})
		}
		status := 200
		switch c.N(10) {
		case 0:
			hdr = append(hdr, [2]string{"Link", c.Pick("<>; rel", ";;;", "<http://x.example/l>;;=,", "<"+target+">; rel=\"next\", <", strings.Repeat("<a>, ", 500), "\xff\xfe",
				"<"+target+">; crossorigin; rel=\"preload\"", "<"+target+">; nopush", "<"+target+">; rel=preload; as=image; crossorigin", "<"+target+">;rel", "<"+target+">; =x; rel=next", "<"+target+">; a=b=c; rel=\"next\"", "<"+target+">; rel=\"next\";", "<"+target+">; title*=UTF-8''x; rel=next, <"+target+"2>; anchor", ",,<"+target+">;;rel=next,,")})
		case 1:
			hdr[0][1] = c.Pick("", "text/html; charset=\xff", "application/json;;;", "*/*", strings.Repeat("x", 5000), "text/html\x00")
		case 2:
			hdr = append(hdr, [2]string{"Content-Encoding", "gzip"}) // body is not gzip
		case 3:
			status = c.PickInt(301, 302, 307)
			hdr = append(hdr, [2]string{"Location", c.Pick(oddURLs[c.N(len(oddURLs))], oddURLs[c.N(len(oddURLs))], "http://[::1", "%%%", "//", "javascript:alert(1)", "http://"+strings.Repeat("a", 3000)+".example/", "\\\\host\\share", "http://10.3.3.3:99999/", "?", "#", " ", "http://10.3.3.3/\x7f\x01")})
		case 4:
			status = c.PickInt(200, 206, 203, 418, 599, 100+c.N(500))
			if status < 200 {
				status = 200
			}
		}
		rp := Response{Status: status, Headers: hdr, Body: Raw(body)}
		switch c.N(8) {
		case 0:
			rp.Chunked = true
		case 1:
			rp.Fault = "short-body"
		case 2:
			rp.Fault = "long-body"
		}
		asAsset := c.Chance(1, 3)
		docPath := "/h/" + c.Name("doc") + map[string]string{"html": ".html", "json": ".json", "xml": ".xml", "sitemap": ".xml", "s3": "", "m3u8": ".m3u8", "pdf": ".pdf", "plain": ".txt"}[kind]
		if kind == "s3" && c.Chance(1, 2) {
			docPath += c.Pick("?list-type=2", "?list-type=2&delimiter=%2F", "?delimiter=%2F&prefix=p%2F") // both listing APIs
		}
		r := c.res(host, docPath, "", 0, May, rp)
		r.Tags["hostile"] = kind
		if asAsset {
			pp := "/h/" + c.Name("holder") + ".html"
			v := URL(host, pp)
			c.res(host, pp, v, 0, May, OK("text/html", Lit(`<html><head><link rel="preload" href="`+docPath+`"></head><body><img src="`+docPath+`"></body></html>`)))
			g.Sc.Queue = append(g.Sc.Queue, c.row(v))
		} else {
			g.Sc.Queue = append(g.Sc.Queue, c.row(URL(host, docPath)))
		}
	}
	g.Sc.StopAtIdle = true
	g.Sc.Sched.MaxSteps = 80000
	g.Sc.Sched.MaxSimSec = 6 * 3600
	return g.Sc
}

// HostilePDFNestedDicts is the pinned scenario of a recorded finding: a small PDF whose content object opens
// several hundred dictionaries and closes none. pdfcpu v0.9.1 parses every nested dictionary twice (relaxed,
// then strict) when the first attempt fails, so the work doubles per level and the postprocessor worker that
// calls extractor.PDF never comes back.
func HostilePDFNestedDicts() *Scenario {
	g := NewGen(NewTape(10), "hostile-pdf-nested-dicts", "C10")
	c := &crawlGen{Gen: g, o: CrawlOpts{Prop: "C10"}}
	cfg := &g.Sc.Cfg
	cfg.Workers, cfg.MaxConcurrentAssets, cfg.MaxRedirect, cfg.PoolSize = 2, 1, 1, 1
	cfg.MaxHops = 1 // links in a PDF are outlinks: the extractor runs only when hops are allowed
	cfg.DiscardStatus = []int{429}
	pdf := BuildPDF([]string{"http://10.3.3.3/from-pdf"})
	marker := []byte("4 0 obj\n")
	if i := bytes.Index(pdf, marker); i >= 0 {
		var nb bytes.Buffer
		nb.Write(pdf[:i+len(marker)])
		nb.WriteString(strings.Repeat("<< /Le", 600))
		nb.Write(pdf[i+len(marker):])
		pdf = nb.Bytes()
	}
	host := c.Host()
	r := c.res(host, "/h/nested.pdf", "", 0, May, Response{Status: 200, Headers: [][2]string{{"Content-Type", "application/pdf"}}, Body: Raw(pdf)})
	r.Tags["hostile"] = "pdf"
	g.Sc.Queue = append(g.Sc.Queue, c.row(URL(host, "/h/nested.pdf")))
	g.Sc.StopAtIdle = true
	g.Sc.Sched.MaxSteps = 80000
	g.Sc.Sched.MaxSimSec = 6 * 3600
	g.Sc.Extra = map[string]string{"wall_limit_s": "25"}
	return g.Sc
}
