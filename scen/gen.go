package scen

import (
	"fmt"
	"strings"
)

// Gen holds the state of one scenario generation.
type Gen struct {
	T     *Tape
	Sc    *Scenario
	hostN int
	uid   int
}

func NewGen(t *Tape, name, prop string) *Gen {
	return &Gen{T: t, Sc: &Scenario{Name: name, Prop: prop, Site: map[string]*Resource{}, Hosts: map[string]*HostPlan{}}}
}

func (g *Gen) N(n int) int { return g.T.Draw(n) }

// Chance is true num times out of den.
func (g *Gen) Chance(num, den int) bool { return g.T.Draw(den) < num }

func (g *Gen) Pick(xs ...string) string { return xs[g.T.Draw(len(xs))] }

func (g *Gen) PickInt(xs ...int) int { return xs[g.T.Draw(len(xs))] }

// Host returns a fresh IP-literal host (no DNS needed, passes Zeno's host checks).
func (g *Gen) Host() string {
	g.hostN++
	return fmt.Sprintf("10.%d.%d.%d", 1+g.hostN/250, 1+(g.hostN/5)%50, 1+g.hostN%250)
}

func (g *Gen) Uid() int { g.uid++; return g.uid }

func (g *Gen) Name(prefix string) string { return fmt.Sprintf("%s%d", prefix, g.Uid()) }

// Key builds the site-map key for host + request-target.
func Key(host, target string) string {
	if !strings.HasPrefix(target, "/") {
		target = "/" + target
	}
	return host + target
}

func (g *Gen) Add(host, target string, r *Resource) *Resource {
	g.Sc.Site[Key(host, target)] = r
	return r
}

func H(kv ...string) [][2]string {
	var out [][2]string
	for i := 0; i+1 < len(kv); i += 2 {
		out = append(out, [2]string{kv[i], kv[i+1]})
	}
	return out
}

func OK(ct string, body Body) Response {
	return Response{Status: 200, Headers: H("Content-Type", ct), Body: body}
}

func Status(code int) Response {
	return Response{Status: code, Headers: H("Content-Type", "text/plain"), Body: Body{Text: fmt.Sprintf("status %d\n", code)}}
}

func Redirect(code int, loc string) Response {
	return Response{Status: code, Headers: H("Location", loc, "Content-Type", "text/plain"), Body: Body{Text: ""}}
}

func Lit(s string) Body    { return Body{Text: s} }
func Pad(n, seed int) Body { return Body{Kind: "pad", Size: n, Seed: seed} }
func Bin(n, seed int) Body { return Body{Kind: "bin", Size: n, Seed: seed} }
func URL(host, p string) string {
	if !strings.HasPrefix(p, "/") {
		p = "/" + p
	}
	return "http://" + host + p
}
