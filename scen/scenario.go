package scen

import (
	"bytes"
	"compress/gzip"
	"encoding/base64"
	"math/rand/v2"
)

// Scenario is the complete, explicit description of one simulated run.
// It is drawn from the tape by a generator before the bubble starts and is
// stored literally in run records and replay files.
type Scenario struct {
	Name  string               `json:"name"`
	Prop  string               `json:"prop"`
	Cfg   Cfg                  `json:"cfg"`
	Queue []QRow               `json:"queue"`
	Site  map[string]*Resource `json:"site"`
	Hosts map[string]*HostPlan `json:"hosts,omitempty"`
	Ctl   []CtlAction          `json:"ctl,omitempty"`
	Disk  []DiskReading        `json:"disk,omitempty"`
	HQ    *HQPlan              `json:"hq,omitempty"`
	// LQFaults[op][k] applies to the k-th call of the local queue's database operation op ("get", "add", "delete"):
	// "" = succeeds, "err" = fails; a last entry "err*" keeps failing for ever.
	LQFaults map[string][]string `json:"lq_faults,omitempty"`
	Sched    SchedCfg            `json:"sched"`

	StopAtIdle bool `json:"stop_at_idle"`
	IdleSec    int  `json:"idle_sec"`
	// Restart: second process on the same job directory (C04)
	Restart bool `json:"restart,omitempty"`
	// Extra knobs for specific engines
	Extra map[string]string `json:"extra,omitempty"`
}

type SchedCfg struct {
	FIFO          bool `json:"fifo,omitempty"`
	AdvanceWeight int  `json:"adv_w,omitempty"`
	ReleaseWeight int  `json:"rel_w,omitempty"`
	MaxSteps      int  `json:"max_steps,omitempty"`
	MaxSimSec     int  `json:"max_sim_sec,omitempty"`
	// Slow names a hook-point family whose goroutines are released SlowDiv times less often (overrides the per-run draw)
	LazyClock bool   `json:"lazy_clock,omitempty"` // time passes only when no busy goroutine is parked (overrides the per-run draw)
	Slow      string `json:"slow,omitempty"`
	SlowDiv   int    `json:"slow_div,omitempty"`
}

type Cfg struct {
	Workers              int      `json:"workers"`
	MaxConcurrentAssets  int      `json:"max_concurrent_assets"`
	MaxRetry             int      `json:"max_retry"`
	MaxRedirect          int      `json:"max_redirect"`
	MaxHops              int      `json:"max_hops"`
	Seencheck            bool     `json:"seencheck"`
	RateLimit            bool     `json:"rate_limit"`
	RLCapacity           float64  `json:"rl_capacity,omitempty"`
	RLRate               float64  `json:"rl_rate,omitempty"`
	RLCleanupSec         int      `json:"rl_cleanup_sec,omitempty"`
	Proxy                bool     `json:"proxy,omitempty"`
	AsyncWARC            bool     `json:"async_warc,omitempty"`
	TempInWarcs          bool     `json:"temp_in_warcs,omitempty"` // --warc-temp-dir pointed at the directory the WARC files are written to
	PoolSize             int      `json:"pool_size"`
	WARCQueueSize        int      `json:"warc_queue_size,omitempty"`
	OnDisk               bool     `json:"on_disk,omitempty"`
	DisableLocalDedupe   bool     `json:"disable_local_dedupe,omitempty"`
	DedupeSize           int      `json:"dedupe_size,omitempty"`
	DiscardStatus        []int    `json:"discard_status,omitempty"`
	IncludeHosts         []string `json:"include_hosts,omitempty"`
	IncludeString        []string `json:"include_string,omitempty"`
	ExcludeHosts         []string `json:"exclude_hosts,omitempty"`
	ExcludeString        []string `json:"exclude_string,omitempty"`
	ExclusionRegex       []string `json:"exclusion_regex,omitempty"`
	DisableAssetsCapture bool     `json:"disable_assets_capture,omitempty"`
	CaptureAlternate     bool     `json:"capture_alternate,omitempty"`
	DisableHTMLTag       []string `json:"disable_html_tag,omitempty"`
	DomainsCrawl         []string `json:"domains_crawl,omitempty"`
	HTTPTimeoutSec       int      `json:"http_timeout_sec,omitempty"`
	MinSpaceGiB          float64  `json:"min_space_gib,omitempty"`
	UseHQ                bool     `json:"use_hq,omitempty"`
	HQBatchSize          int      `json:"hq_batch_size,omitempty"`
	HQBatchConcurrency   int      `json:"hq_batch_concurrency,omitempty"` // concurrent sub-fetches per hand-out (default 1)
	WARCSizeMB           int      `json:"warc_size_mb,omitempty"`
}

type QRow struct {
	ID    string `json:"id"`
	Value string `json:"value"`
	Via   string `json:"via,omitempty"`
	Hops  int    `json:"hops,omitempty"`
}

// Resource is what the simulated origin serves for one (host, request-target).
type Resource struct {
	Resp []Response `json:"resp"`
	// Ground truth planted by the generator, used by oracles.
	Expect string            `json:"expect,omitempty"` // "must" | "may" | "never"
	Level  int               `json:"level,omitempty"`  // asset depth below the page (C06)
	Seed   string            `json:"seed,omitempty"`   // queue row value whose tree this URL belongs to (when unique)
	Tags   map[string]string `json:"tags,omitempty"`
}

// Response describes the answer to the k-th request of a resource
// (the last entry repeats).
type Response struct {
	Fault   string      `json:"fault,omitempty"` // "", close-before-status, reset-headers, reset-body, short-body, long-body, stall, slow
	Status  int         `json:"status"`
	Headers [][2]string `json:"headers,omitempty"`
	Body    Body        `json:"body"`
	Chunked bool        `json:"chunked,omitempty"`
	Gzip    bool        `json:"gzip,omitempty"`
	NoLen   bool        `json:"nolen,omitempty"` // close-delimited body
	Pieces  int         `json:"pieces,omitempty"`
	DelayMs int         `json:"delay_ms,omitempty"`
}

type Body struct {
	Kind string `json:"kind,omitempty"` // "lit" (default), "pad", "bin"
	Text string `json:"text,omitempty"`
	Size int    `json:"size,omitempty"`
	Seed int    `json:"seed,omitempty"`
}

type HostPlan struct {
	// DialFaults[k] applies to the k-th dial to this host ("", "refuse", "blackhole"); beyond the list: ok.
	DialFaults []string `json:"dial_faults,omitempty"`
}

type Trigger struct {
	Point  string `json:"point,omitempty"` // event point
	Actor  string `json:"actor,omitempty"` // optional actor prefix
	Nth    int    `json:"nth,omitempty"`   // 1-based occurrence
	Idle   bool   `json:"idle,omitempty"`  // when the pipeline has been idle for IdleSec
	AtStep int    `json:"at_step,omitempty"`
	After  string `json:"after,omitempty"` // name of another action that must have completed
}

type CtlAction struct {
	Name    string  `json:"name"`
	Kind    string  `json:"kind"` // stop | pause | resume | kill | end | disk
	Trigger Trigger `json:"trigger"`
	Arg     string  `json:"arg,omitempty"`
}

type DiskReading struct {
	Blocks uint64 `json:"blocks"`
	Bavail uint64 `json:"bavail"`
	Bsize  int64  `json:"bsize"`
}

type HQPlan struct {
	// Faults[kind][k] applies to the k-th call of that kind: "", "500", "reset-before", "reset-after", "timeout"
	Faults map[string][]string `json:"faults,omitempty"`
	Seen   []string            `json:"seen,omitempty"` // URLs the HQ already knows
}

// Bytes materialises a body.
func (b Body) Bytes() []byte {
	switch b.Kind {
	case "pad":
		return PadText(b.Size, b.Seed)
	case "bin":
		return BinBytes(b.Size, b.Seed)
	case "b64":
		raw, _ := base64.StdEncoding.DecodeString(b.Text)
		return raw
	default:
		return []byte(b.Text)
	}
}

// Raw builds a binary-safe literal body.
func Raw(b []byte) Body { return Body{Kind: "b64", Text: base64.StdEncoding.EncodeToString(b)} }

func PadText(n, seed int) []byte {
	r := rand.New(rand.NewPCG(uint64(seed)+1, 77))
	words := []string{"zeno", "crawl", "archive", "lorem", "ipsum", "warc", "seed", "asset", "page", "text"}
	var buf bytes.Buffer
	for buf.Len() < n {
		buf.WriteString(words[r.IntN(len(words))])
		if r.IntN(9) == 0 {
			buf.WriteByte('\n')
		} else {
			buf.WriteByte(' ')
		}
	}
	return buf.Bytes()[:n]
}

func BinBytes(n, seed int) []byte {
	r := rand.New(rand.NewPCG(uint64(seed)+1, 99))
	out := make([]byte, n)
	hdr := []byte{0x89, 'P', 'N', 'G', 0x0d, 0x0a, 0x1a, 0x0a}
	for i := range out {
		if i < len(hdr) {
			out[i] = hdr[i]
		} else {
			out[i] = byte(r.IntN(256))
		}
	}
	return out
}

func GzipBytes(b []byte) []byte {
	var buf bytes.Buffer
	zw, _ := gzip.NewWriterLevel(&buf, gzip.BestSpeed)
	zw.Write(b)
	zw.Close()
	return buf.Bytes()
}
