package scen

import (
	"bytes"
	"encoding/json"
	"fmt"
	"net/url"
	"sort"
	"strings"
)

// BucketSpec describes a simulated S3-style bucket (served statefully by the origin).
type BucketSpec struct {
	Host      string      `json:"host"`
	API       string      `json:"api"` // "v1" (marker) or "v2" (continuation token)
	Delimiter bool        `json:"delimiter"`
	PageSize  int         `json:"page_size"`
	Server    string      `json:"server"`
	Objects   []BucketObj `json:"objects"`
}

type BucketObj struct {
	Key  string `json:"key"`
	Size int    `json:"size"`
}

// DocPlant records what a generated document must lead to.
type DocPlant struct {
	Doc      string   `json:"doc"`      // URL of the document
	Kind     string   `json:"kind"`     // json | xml | rss | sitemap | m3u8
	Assets   []string `json:"assets"`   // planted URLs whose last path segment has an extension
	Outlinks []string `json:"outlinks"` // planted URLs without extension
	Seed     string   `json:"seed"`     // queue row owning the document
	AsSeed   bool     `json:"as_seed"`  // the document is the seed itself (else an asset of a page)
}

// GenDocs draws a scenario for C19: structured documents with planted links, and bucket listings.
func GenDocs(t *Tape, wantBucket bool) *Scenario {
	g := NewGen(t, "docs", "C19")
	c := &crawlGen{Gen: g, o: CrawlOpts{Prop: "C19"}}
	cfg := &g.Sc.Cfg
	cfg.Workers = 1 + c.N(3)
	cfg.MaxConcurrentAssets = 1 + c.N(3)
	cfg.MaxRetry = 0
	cfg.MaxRedirect = 2
	cfg.Seencheck = c.Chance(2, 3)
	cfg.PoolSize = 1
	cfg.DiscardStatus = []int{429}
	cfg.MaxHops = 1 + c.N(2)
	g.Sc.Extra = map[string]string{}
	if wantBucket {
		cfg.MaxHops = 60
		host := c.Host()
		spec := BucketSpec{Host: host, API: c.Pick("v1", "v2", "v2"), PageSize: 1 + c.N(7), Server: c.Pick("AmazonS3", "WasabiS3", "UploadServer", "AliyunOSS")}
		if spec.API == "v2" {
			spec.Delimiter = c.Chance(2, 3)
		}
		nk := 1 + c.N(22)
		dirs := []string{"", "", "a/", "a/b/", "c/", "photos/2020/"}
		seen := map[string]bool{}
		for i := 0; i < nk; i++ {
			key := dirs[c.N(len(dirs))] + c.Name("obj") + c.Pick(".txt", ".jpg", ".bin", "")
			if !spec.Delimiter && spec.API == "v1" {
				// flat bucket: keys may still contain slashes, there is just no delimiter in the request
			}
			if seen[key] {
				continue
			}
			seen[key] = true
			size := 1 + c.N(5000)
			if c.Chance(1, 6) {
				size = 0
			}
			spec.Objects = append(spec.Objects, BucketObj{Key: key, Size: size})
		}
		sort.Slice(spec.Objects, func(i, j int) bool { return spec.Objects[i].Key < spec.Objects[j].Key })
		b, _ := json.Marshal(spec)
		g.Sc.Extra["bucket"] = string(b)
		q := "/"
		if spec.API == "v2" {
			q = "/?list-type=2"
			if spec.Delimiter {
				q += "&delimiter=%2F"
			}
		}
		g.Sc.Queue = append(g.Sc.Queue, c.row("http://"+host+q))
		g.Sc.StopAtIdle = true
		g.Sc.Sched.MaxSteps = 200000
		g.Sc.Sched.MaxSimSec = 8 * 3600
		return g.Sc
	}
	var plants []DocPlant
	nDocs := 1 + c.N(3)
	for d := 0; d < nDocs; d++ {
		host := c.Host()
		other := c.Host()
		kind := c.Pick("json", "json", "xml", "rss", "sitemap", "m3u8")
		asSeed := c.Chance(1, 2) || kind == "sitemap"
		var assets, outs []string
		newAsset := func(ext string) string {
			h := host
			if c.Chance(1, 3) {
				h = other
			}
			p := "/files/" + c.Name("f") + ext
			r := c.res(h, p, "", 2, May, OK("application/octet-stream", Bin(40, c.Uid())))
			r.Tags["c19"] = "asset"
			u := "http://" + h + p
			assets = append(assets, u)
			return u
		}
		newOut := func() string {
			p := "/view/" + c.Name("v")
			c.res(host, p, "", 0, May, OK("text/html", Lit("<html><body>v</body></html>")))
			u := "http://" + host + p
			outs = append(outs, u)
			return u
		}
		// URLs whose query holds a second '?' behind a '/': what decides asset / outlink is the path before the FIRST '?'
		newAssetOdd := func(ext string) string {
			p := "/files/" + c.Name("f") + ext
			raw := "http://" + host + p + "?src=/portal/view?id=7"
			canon := p + "?src=" + url.QueryEscape("/portal/view?id=7")
			r := c.res(host, canon, "", 2, May, OK("application/octet-stream", Bin(40, c.Uid())))
			r.Tags["c19"] = "asset"
			assets = append(assets, "http://"+host+canon)
			return raw
		}
		newOutOdd := func() string {
			u := "http://" + host + "/go" + fmt.Sprint(c.Uid()) + "?next=http://" + other + "/a/logo.png?v=2"
			outs = append(outs, u)
			return u
		}
		var ct, body string
		switch kind {
		case "json":
			ct = "application/json"
			deep := fmt.Sprintf(`{"level1":{"level2":[{"level3":{"thumb":"%s"}},["%s",{"x":"%s"}]]}}`, newAsset(".png"), newAsset(".jpg"), newOut())
			innerMap := map[string]any{"media": newAsset(".mp4"), "n": 3}
			if c.Chance(1, 3) {
				// a big embedded document (several KiB of JSON inside one string value)
				var items []map[string]string
				for j, n := 0, 30+c.N(60); j < n; j++ {
					it := map[string]string{"id": fmt.Sprint(j), "caption": string(PadText(40, c.Uid()))}
					if j%9 == 0 {
						it["thumb"] = newAsset(".png")
					}
					if j%17 == 3 {
						it["page"] = newOut()
					}
					items = append(items, it)
				}
				innerMap["items"] = items
			}
			inner, _ := json.Marshal(innerMap)
			innerStr, _ := json.Marshal(string(inner))
			body = fmt.Sprintf(`{"id":%d,"title":"t","url":"%s","nested":%s,"embedded":%s,"list":["%s","not a url",42,null],"esc":"%s"}`,
				c.N(99), newOut(), deep, innerStr, newAsset(".css"), strings.ReplaceAll(newAsset(".gif"), "/", `\/`))
			if c.Chance(1, 2) {
				var buf bytes.Buffer
				if json.Indent(&buf, []byte(body), "", "  ") == nil {
					body = buf.String()
				}
			}
		case "xml":
			ct = "application/xml"
			body = fmt.Sprintf(`<?xml version="1.0"?><root xmlns:m="http://ns.example/m"><item href="%s"><m:thumb url="%s"/><link>%s</link><data><![CDATA[%s]]></data></item><note>plain text</note></root>`,
				newOut(), newAsset(".png"), newAsset(".pdf"), newAsset(".zip"))
			if c.Chance(1, 2) {
				body = strings.Replace(body, "<note>", fmt.Sprintf(`<report>%s</report><jump>%s</jump><note>`, newAssetOdd(".pdf"), newOutOdd()), 1)
			}
		case "rss":
			ct = "application/rss+xml"
			body = fmt.Sprintf(`<?xml version="1.0"?><rss version="2.0"><channel><title>t</title><link>%s</link><item><title>a</title><link>%s</link><enclosure url="%s" type="audio/mpeg"/></item></channel></rss>`,
				newOut(), newOut(), newAsset(".mp3"))
		case "sitemap":
			ct = "application/xml"
			body = fmt.Sprintf(`<?xml version="1.0" encoding="UTF-8"?><urlset xmlns="http://www.sitemaps.org/schemas/sitemap/0.9"><url><loc>%s</loc></url><url><loc>%s</loc></url><url><loc>%s</loc></url></urlset>`,
				newOut(), newOut(), newAsset(".html"))
		case "m3u8":
			ct = c.Pick("application/vnd.apple.mpegurl", "application/vnd.apple.mpegurl", "application/x-mpegURL", "application/x-mpegurl; charset=utf-8", "Application/X-MpegURL") // both registered names, any case
			if c.Chance(1, 2) {
				body = fmt.Sprintf("#EXTM3U\n#EXT-X-VERSION:3\n#EXT-X-TARGETDURATION:10\n#EXTINF:10.0,\n%s\n#EXTINF:10.0,\n%s\n#EXT-X-ENDLIST\n", newAsset(".ts"), newAsset(".ts"))
			} else {
				if c.Chance(1, 2) {
					body = fmt.Sprintf("#EXTM3U\n#EXT-X-MEDIA:TYPE=AUDIO,GROUP-ID=\"aud\",NAME=\"en\",URI=\"%s\"\n#EXT-X-STREAM-INF:BANDWIDTH=1280000,AUDIO=\"aud\"\n%s\n#EXT-X-STREAM-INF:BANDWIDTH=2560000,AUDIO=\"aud\"\n%s\n", newAsset(".m3u8"), newAsset(".m3u8"), newAsset(".m3u8"))
				} else {
					// two rendition groups of the same type that reuse the same names
					body = fmt.Sprintf("#EXTM3U\n#EXT-X-MEDIA:TYPE=AUDIO,GROUP-ID=\"audio-lo\",NAME=\"English\",URI=\"%s\"\n#EXT-X-MEDIA:TYPE=AUDIO,GROUP-ID=\"audio-lo\",NAME=\"Francais\",URI=\"%s\"\n#EXT-X-MEDIA:TYPE=AUDIO,GROUP-ID=\"audio-hi\",NAME=\"English\",URI=\"%s\"\n#EXT-X-MEDIA:TYPE=AUDIO,GROUP-ID=\"audio-hi\",NAME=\"Francais\",URI=\"%s\"\n#EXT-X-STREAM-INF:BANDWIDTH=1280000,AUDIO=\"audio-lo\"\n%s\n#EXT-X-STREAM-INF:BANDWIDTH=2560000,AUDIO=\"audio-hi\"\n%s\n",
						newAsset(".m3u8"), newAsset(".m3u8"), newAsset(".m3u8"), newAsset(".m3u8"), newAsset(".m3u8"), newAsset(".m3u8"))
				}
			}
		}
		ext := map[string]string{"json": ".json", "xml": ".xml", "rss": ".rss", "sitemap": ".xml", "m3u8": ".m3u8"}[kind]
		docPath := "/data/" + c.Name("doc") + ext
		docURL := "http://" + host + docPath
		var seed string
		if asSeed {
			seed = docURL
			c.res(host, docPath, seed, 0, Must, OK(ct, Lit(body)))
			g.Sc.Queue = append(g.Sc.Queue, c.row(docURL))
		} else {
			pagePath := "/page/" + c.Name("p") + ".html"
			seed = "http://" + host + pagePath
			c.res(host, docPath, seed, 1, Must, OK(ct, Lit(body)))
			c.res(host, pagePath, seed, 0, Must, OK("text/html", Lit(`<html><head><link rel="preload" href="`+docPath+`"></head><body>p</body></html>`)))
			g.Sc.Queue = append(g.Sc.Queue, c.row(seed))
		}
		plants = append(plants, DocPlant{Doc: docURL, Kind: kind, Assets: assets, Outlinks: outs, Seed: seed, AsSeed: asSeed})
	}
	b, _ := json.Marshal(plants)
	g.Sc.Extra["docs"] = string(b)
	g.Sc.StopAtIdle = true
	g.Sc.Sched.MaxSteps = 80000
	g.Sc.Sched.MaxSimSec = 4 * 3600
	return g.Sc
}
