package scen

import "fmt"

// GenDomainsCrawl draws a scenario for the --domains-crawl clauses of C06: outlinks that match the pattern are queued
// with hops 0 whatever the page's hops, the others only below --max-hops and with hops + 1. Hosts are names (the
// simulator resolves every name): the crawl domain, sub-domains of it, and look-alikes that merely contain it.
func GenDomainsCrawl(t *Tape) *Scenario {
	g := NewGen(t, "domains-crawl", "C06")
	c := &crawlGen{Gen: g, o: CrawlOpts{Prop: "C06"}}
	cfg := &g.Sc.Cfg
	cfg.Workers = 1 + c.N(3)
	cfg.MaxConcurrentAssets = 1 + c.N(2)
	cfg.MaxRetry = 0
	cfg.MaxRedirect = 2
	cfg.Seencheck = true
	cfg.PoolSize = 1
	cfg.DiscardStatus = []int{429}
	cfg.MaxHops = c.N(3)
	dom := c.Pick("crawlme.example", "archive-this.example", "site.co.example")
	kind := c.N(3)
	switch kind {
	case 0:
		cfg.DomainsCrawl = []string{dom}
	case 1:
		cfg.DomainsCrawl = []string{"http://" + dom}
	default:
		cfg.DomainsCrawl = []string{dom, "other-" + dom}
	}
	inHosts := []string{dom, "www." + dom, "a.b." + dom}
	if kind == 2 {
		inHosts = append(inHosts, "other-"+dom)
	}
	outHosts := []string{"not" + dom, dom + ".evil.example", "x" + dom, "elsewhere.example", "my-" + dom}
	leaf := func(host string) string {
		p := "/" + c.Name("leaf") + ".html"
		c.res(host, p, "", 0, May, OK("text/html", Lit("<html><body>leaf "+c.Name("l")+"</body></html>")))
		return "http://" + host + p
	}
	// pageWith creates a page on host linking to the given absolute URLs
	pageWith := func(host string, outs []string) string {
		p := "/" + c.Name("pg") + "/"
		v := "http://" + host + p
		c.page(host, p, v, c.N(2), cfg, outs)
		return v
	}
	nSeeds := 1 + c.N(2)
	for s := 0; s < nSeeds; s++ {
		// a chain inside the domain that is longer than max-hops: every link must still be followed
		n := 2 + c.N(3)
		next := leaf(inHosts[c.N(len(inHosts))])
		for i := 0; i < n; i++ {
			outs := []string{next}
			for j := 0; j < 1+c.N(3); j++ {
				// look-alike and foreign pages, which themselves link on (followed only while hops allow)
				oh := outHosts[c.N(len(outHosts))]
				outs = append(outs, pageWith(oh, []string{leaf(outHosts[c.N(len(outHosts))]), leaf(inHosts[c.N(len(inHosts))])}))
			}
			next = pageWith(inHosts[c.N(len(inHosts))], outs)
		}
		g.Sc.Queue = append(g.Sc.Queue, c.row(next))
	}
	if c.Chance(1, 2) {
		// a seed outside the domain: its in-domain links are reset to hops 0, the others count up
		g.Sc.Queue = append(g.Sc.Queue, c.row(pageWith(outHosts[c.N(len(outHosts))], []string{leaf(inHosts[c.N(len(inHosts))]), pageWith(outHosts[c.N(len(outHosts))], []string{leaf(outHosts[c.N(len(outHosts))])})})))
	}
	g.Sc.Extra = map[string]string{"domains": fmt.Sprint(len(cfg.DomainsCrawl))}
	g.Sc.StopAtIdle = true
	g.Sc.Sched.MaxSteps = 120000
	g.Sc.Sched.MaxSimSec = 6 * 3600
	return g.Sc
}

// GenQueuePileUp draws the scenario of a queue outage that lasts longer than the queue client's buffers hold (C15):
// with crawl HQ, a hub page with an odd number of outlinks, batches of two and a run of failing add calls; with the
// local queue, a dozen plain seeds finishing while delete calls fail. Everything the pipeline handed over must still
// arrive once the outage is over (a partial batch waiting for its timer included).
func GenQueuePileUp(t *Tape, hq bool) *Scenario {
	g := NewGen(t, "queue-pile-up", "C15")
	c := &crawlGen{Gen: g, o: CrawlOpts{Prop: "C15"}}
	cfg := &g.Sc.Cfg
	cfg.MaxConcurrentAssets = 1
	cfg.MaxRedirect = 2
	cfg.PoolSize = 1
	cfg.DiscardStatus = []int{429}
	cfg.Seencheck = c.Chance(1, 2)
	if hq {
		cfg.UseHQ = true
		cfg.Workers = 1 + c.N(3)
		cfg.MaxHops = 1
		cfg.HQBatchSize = 2
		host := c.Host()
		n := 5 + 2*c.N(5) // odd: one outlink is left in a partial batch
		var outs []string
		for i := 0; i < n; i++ {
			op := "/" + c.Name("leaf") + ".html"
			c.res(host, op, "", 0, MustEnd, OK("text/html", Lit("<html><body>leaf "+c.Name("l")+"</body></html>"))).Tags["outlink-of"] = URL(host, "/hub/")
			outs = append(outs, op)
		}
		c.reliable = true
		c.page(host, "/hub/", URL(host, "/hub/"), 0, cfg, outs)
		c.reliable = false
		g.Sc.Queue = append(g.Sc.Queue, c.row(URL(host, "/hub/")))
		plan := &HQPlan{Faults: map[string][]string{}}
		for i, k := 0, 8+c.N(10); i < k; i++ {
			plan.Faults["add"] = append(plan.Faults["add"], c.Pick("500", "500", "reset-before", "timeout"))
		}
		g.Sc.HQ = plan
	} else {
		cfg.Workers = 2 + c.N(2)
		for i, n := 0, 5*cfg.Workers+1+c.N(4); i < n; i++ {
			host := c.Host()
			p := "/" + c.Name("plain")
			v := URL(host, p)
			c.res(host, p, v, 0, Must, OK("text/html", Lit("<html><body>hello "+c.Name("w")+"</body></html>")))
			g.Sc.Queue = append(g.Sc.Queue, c.row(v))
		}
		g.Sc.LQFaults = map[string][]string{}
		for i, k := 0, 12+c.N(12); i < k; i++ {
			g.Sc.LQFaults["delete"] = append(g.Sc.LQFaults["delete"], "err")
		}
	}
	g.Sc.StopAtIdle = true
	g.Sc.Sched.MaxSteps = 200000
	g.Sc.Sched.MaxSimSec = 4 * 3600
	return g.Sc
}
