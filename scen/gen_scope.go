package scen

import (
	"fmt"
	"strings"
)

// GenScope draws a scenario for C05: filters x URL texts in every tree position.
func GenScope(t *Tape) *Scenario {
	g := NewGen(t, "scope", "C05")
	c := &crawlGen{Gen: g, o: CrawlOpts{Prop: "C05"}}
	cfg := &g.Sc.Cfg
	cfg.Workers = 1 + c.N(3)
	cfg.MaxConcurrentAssets = 1 + c.N(3)
	cfg.MaxRetry = c.N(2)
	cfg.MaxRedirect = 2 + c.N(3)
	cfg.Seencheck = c.Chance(1, 2)
	cfg.PoolSize = 1
	cfg.DiscardStatus = []int{429}
	if c.Chance(1, 3) {
		cfg.MaxHops = 1
	}

	inHosts := []string{"site1.example", "www.site2.example", c.Host(), c.Host()}
	outHost := []string{"blocked.example", "ads.bad.example", "tracker.bad.example"}
	// filters
	if c.Chance(2, 3) {
		cfg.ExcludeHosts = append(cfg.ExcludeHosts, "blocked.example")
		if c.Chance(1, 2) {
			cfg.ExcludeHosts = append(cfg.ExcludeHosts, "bad.example")
		}
	}
	if c.Chance(1, 2) {
		cfg.ExcludeString = append(cfg.ExcludeString, c.Pick("/private/", "secret", "?nocrawl"))
	}
	if c.Chance(1, 3) {
		cfg.ExclusionRegex = append(cfg.ExclusionRegex, c.Pick(`\.pdf$`, `/tmp[0-9]+/`, `^http://[^/]*\.bad\.example/`, `[?&]action=(edit|delete)`, `[?&]action=(edit|delete)`))
		if c.Chance(1, 3) {
			cfg.ExclusionRegex = append(cfg.ExclusionRegex, c.Pick(`\.pdf$`, `/tmp[0-9]+/`, `[?&]sid=[0-9a-f]+`))
		}
		if c.Chance(1, 8) {
			// a legal but very long line in the middle of the exclusion file (longer than a default line scanner accepts):
			// either the crawl refuses to start or every line counts, never a silently shortened list
			long := "^http://never\\.example/(" + strings.Repeat("a1|", 23000) + "z)$"
			cfg.ExclusionRegex = append([]string{cfg.ExclusionRegex[0], long}, cfg.ExclusionRegex[1:]...)
			if len(cfg.ExclusionRegex) == 2 {
				cfg.ExclusionRegex = append(cfg.ExclusionRegex, `/img/`)
			}
			g.Sc.Extra = map[string]string{"config_may_refuse": "1"}
		}
	}
	switch c.N(4) {
	case 0:
		cfg.IncludeHosts = []string{"site1.example", inHosts[2]}
	case 1:
		cfg.IncludeString = []string{"/keep/"}
	case 2:
		cfg.IncludeHosts = []string{"site2.example"}
		cfg.IncludeString = []string{"/keep/"}
	}

	// link forms for a target (host, path)
	form := func(host, path string) string {
		switch c.N(7) {
		case 0:
			return "http://" + host + path
		case 1:
			return "HTTP://" + strings.ToUpper(host) + path
		case 2:
			return "//" + host + path
		case 3:
			return "http://user:pw@" + host + path
		case 4:
			return "http://" + host + ":80" + path
		case 5:
			return "  http://" + host + path + "#frag"
		default:
			return "http://" + host + path
		}
	}
	paths := func() string {
		switch c.N(10) {
		case 8, 9: // the same page under several queries (a filter on the query must be judged per URL, not per page)
			return "/wiki/" + c.Pick("w1", "w2") + ".php?title=T&action=" + c.Pick("view", "edit", "delete", "history", "view") + c.Pick("", "&sid=4f2a")
		case 0:
			return "/keep/" + c.Name("k") + ".png"
		case 1:
			return "/private/" + c.Name("p") + ".png"
		case 2:
			return "/img/secret-" + c.Name("s") + ".png"
		case 3:
			return "/doc/" + c.Name("d") + ".pdf"
		case 4:
			return "/tmp" + fmt.Sprint(c.N(100)) + "/" + c.Name("t") + ".png"
		case 5:
			return "/a/" + c.Name("q") + ".png?nocrawl=1"
		case 6:
			return "/keep/" + c.Name("kk") + "/x.css"
		default:
			return "/img/" + c.Name("i") + ".png"
		}
	}
	addTarget := func(host, path string) {
		// the origin answers for everything, in or out of scope: the oracle decides by the reference predicate
		key := Key(host, path)
		if _, ok := g.Sc.Site[key]; !ok {
			ct := "image/png"
			var b Body = Bin(80, c.Uid())
			if strings.HasSuffix(path, ".css") {
				ct, b = "text/css", Lit("body{}")
			}
			c.res(host, path, "", 1, May, OK(ct, b))
		}
	}
	nonHTTP := []string{"ftp://site1.example/f.png", "javascript:alert(1)", "data:text/plain,hi", "mailto:x@site1.example", "http://localhost/x.png", "http://127.0.0.1/x.png", "http://127.0.0.1:8080/x.png", "//127.0.0.1:9000/x.js", "http://localhost:8080/x.png", "http://intranet/x.png", "http://intranet:8080/x.png", "http://archive.org/x.png", "https://web.archive-it.org/x.png", "file:///etc/passwd", "gopher://site1.example/1"}
	link := func() string {
		r := c.N(10)
		switch {
		case r < 5:
			h := inHosts[c.N(len(inHosts))]
			p := paths()
			addTarget(h, p)
			return form(h, p)
		case r < 8:
			h := outHost[c.N(len(outHost))]
			p := paths()
			addTarget(h, p)
			return form(h, p)
		default:
			return nonHTTP[c.N(len(nonHTTP))]
		}
	}
	nSeeds := 2 + c.N(5)
	for i := 0; i < nSeeds; i++ {
		var host string
		if c.Chance(1, 4) {
			host = outHost[c.N(len(outHost))]
		} else {
			host = inHosts[c.N(len(inHosts))]
		}
		switch c.N(4) {
		case 0, 1: // page with links in asset position
			p := c.Pick("/keep/", "/", "/private/", "/pages/") + c.Name("pg") + ".html"
			var sb strings.Builder
			sb.WriteString("<html><head>")
			n := 2 + c.N(6)
			var queued []string
			if len(cfg.ExclusionRegex) > 0 && c.Chance(1, 2) {
				// one page under two queries, the harmless one first
				h := inHosts[c.N(len(inHosts))]
				w := "/wiki/" + c.Pick("w1", "w2") + ".php?title=T&action="
				p1, p2 := w+"view", w+c.Pick("edit", "delete", "history&sid=4f2a")
				addTarget(h, p1)
				addTarget(h, p2)
				queued = []string{"http://" + h + p1, "http://" + h + p2}
				n += 2
			}
			for j := 0; j < n; j++ {
				l := ""
				if len(queued) > 0 {
					l, queued = queued[0], queued[1:]
				} else {
					l = link()
				}
				switch c.N(4) {
				case 0:
					sb.WriteString(`<link rel="stylesheet" href="` + l + `">`)
				case 1:
					sb.WriteString(`<script src="` + l + `"></script>`)
				default:
					sb.WriteString(`<img src="` + l + `">`)
				}
			}
			sb.WriteString("</head><body>")
			if cfg.MaxHops > 0 {
				for j := 0; j < 2; j++ {
					sb.WriteString(`<a href="` + link() + `">x</a>`)
				}
			}
			sb.WriteString("</body></html>")
			c.res(host, p, "", 0, May, OK("text/html", Lit(sb.String())))
			g.Sc.Queue = append(g.Sc.Queue, c.row("http://"+host+p))
		case 2: // redirect whose target may be out of scope
			p := "/" + c.Name("go")
			c.res(host, p, "", 0, May, Redirect(302, strings.TrimSpace(link())))
			g.Sc.Queue = append(g.Sc.Queue, c.row("http://"+host+p))
		default: // seed given in a odd textual form
			p := paths()
			addTarget(host, p)
			v := strings.TrimSpace(form(host, p))
			if strings.HasPrefix(v, "//") {
				v = "http:" + v
			}
			g.Sc.Queue = append(g.Sc.Queue, c.row(v))
		}
	}
	if c.Chance(1, 3) {
		g.Sc.Queue = append(g.Sc.Queue, c.row(nonHTTP[c.N(len(nonHTTP))]))
	}
	g.Sc.StopAtIdle = true
	g.Sc.Sched.MaxSteps = 60000
	g.Sc.Sched.MaxSimSec = 4 * 3600
	return g.Sc
}
