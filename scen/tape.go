package scen

import (
	"math/rand/v2"
)

// Tape is the single source of every choice the simulator makes.
// In search mode values come from a PCG seeded from the run seed and are
// recorded; in replay mode they are read back (missing / out-of-range = 0).
type Tape struct {
	rng    *rand.Rand
	Rec    []int
	replay []int
	pos    int
	isRep  bool
	fair   *rand.Rand // scheduler choices past the end of a replayed tape: fixed pseudo-random (an all-zero tail would starve every actor but the first)
}

func NewTape(seed uint64) *Tape {
	return &Tape{rng: rand.New(rand.NewPCG(seed, seed^0x9e3779b97f4a7c15))}
}

func NewReplayTape(vals []int) *Tape {
	return &Tape{replay: vals, isRep: true}
}

// Draw returns a value in [0,n).
func (t *Tape) Draw(n int) int {
	if n <= 1 {
		// still consumes a slot so that tapes stay aligned under shrinking
		v := 0
		if t.isRep {
			t.pos++
		}
		t.Rec = append(t.Rec, v)
		return 0
	}
	var v int
	if t.isRep {
		if t.pos < len(t.replay) {
			v = t.replay[t.pos]
		}
		t.pos++
		if v < 0 || v >= n {
			v = 0
		}
	} else {
		v = t.rng.IntN(n)
	}
	t.Rec = append(t.Rec, v)
	return v
}

// DrawSched is Draw for scheduler choices: past the end of a replayed tape the
// value comes from a fixed generator (a function of the tape length only), so
// a shortened tape still yields a fair schedule and replays exactly.
func (t *Tape) DrawSched(n int) int {
	if t.isRep && t.pos >= len(t.replay) && n > 1 {
		if t.fair == nil {
			t.fair = rand.New(rand.NewPCG(0x5eed, uint64(len(t.replay))))
		}
		t.pos++
		v := t.fair.IntN(n)
		t.Rec = append(t.Rec, v)
		return v
	}
	return t.Draw(n)
}
