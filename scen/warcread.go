package scen

import (
	"bufio"
	"bytes"
	"compress/gzip"
	"crypto/sha1"
	"encoding/base32"
	"encoding/hex"
	"fmt"
	"io"
	"net/http"
	"net/url"
	"os"
	"path/filepath"
	"sort"
	"strconv"
	"strings"
)

// WarcRec is one record found by the independent reader.
type WarcRec struct {
	File       string
	Offset     int64
	Type       string
	TargetURI  string
	TargetKey  string // host(+port unless 80) + request-target
	Headers    map[string]string
	BlockLen   int
	HTTPStatus int
	PayloadSHA string // hex sha1 of the de-chunked HTTP entity body (response records)
	PayloadLen int
	DigestHdr  string // hex sha1 decoded from WARC-Payload-Digest
	RefersURI  string
}

// WarcIndex accumulates records across incremental scans.
type WarcIndex struct {
	dir          string
	offsets      map[string]int64 // by base name without .open
	Recs         []*WarcRec
	Errs         []string // structural problems that are violations wherever they are
	TailErr      map[string]string
	EmptyMembers int
}

func NewWarcIndex(dir string) *WarcIndex {
	return &WarcIndex{dir: dir, offsets: map[string]int64{}, TailErr: map[string]string{}}
}

func SHA1Hex(b []byte) string { s := sha1.Sum(b); return hex.EncodeToString(s[:]) }

func b32ToHex(d string) string {
	d = strings.TrimPrefix(d, "sha1:")
	raw, err := base32.StdEncoding.DecodeString(d)
	if err != nil {
		return "bad:" + d
	}
	return hex.EncodeToString(raw)
}

func URIKey(u string) string {
	pu, err := url.Parse(u)
	if err != nil {
		return "unparsable:" + u
	}
	h := pu.Host
	if strings.HasSuffix(h, ":80") && pu.Scheme == "http" {
		h = strings.TrimSuffix(h, ":80")
	}
	return h + pu.RequestURI()
}

type countingReader struct {
	r *bufio.Reader
	n int64
}

func (c *countingReader) Read(p []byte) (int, error) {
	n, err := c.r.Read(p)
	c.n += int64(n)
	return n, err
}
func (c *countingReader) ReadByte() (byte, error) {
	b, err := c.r.ReadByte()
	if err == nil {
		c.n++
	}
	return b, err
}

// Scan reads every file of the warcs directory from where the previous scan stopped.
func (w *WarcIndex) Scan() {
	ents, err := os.ReadDir(w.dir)
	if err != nil {
		return
	}
	var names []string
	for _, e := range ents {
		// WARC files only: when --warc-temp-dir points into this directory, spooled record bodies ("warc-NNN", "zeno-NNN")
		// sit next to them and are left behind by a kill
		if !e.IsDir() && strings.Contains(e.Name(), ".warc") {
			names = append(names, e.Name())
		}
	}
	sort.Strings(names)
	for _, name := range names {
		base := strings.TrimSuffix(name, ".open")
		w.scanFile(filepath.Join(w.dir, name), base)
	}
}

func (w *WarcIndex) scanFile(path, base string) {
	f, err := os.Open(path)
	if err != nil {
		return
	}
	defer f.Close()
	off := w.offsets[base]
	if _, err := f.Seek(off, io.SeekStart); err != nil {
		return
	}
	delete(w.TailErr, base)
	cr := &countingReader{r: bufio.NewReaderSize(f, 1<<16)}
	for {
		if _, err := cr.r.Peek(1); err != nil {
			break // clean EOF
		}
		start := off + cr.n
		zr, err := gzip.NewReader(cr)
		if err != nil {
			w.TailErr[base] = fmt.Sprintf("offset %d: bad gzip header: %v", start, err)
			return
		}
		zr.Multistream(false)
		data, err := io.ReadAll(zr)
		if err != nil {
			w.TailErr[base] = fmt.Sprintf("offset %d: truncated/corrupt member: %v", start, err)
			return
		}
		if len(data) == 0 {
			// an empty gzip member (the writer closes a compressor it never wrote to): carries no bytes, tolerated
			w.EmptyMembers++
			w.offsets[base] = off + cr.n
			continue
		}
		rec, perr := parseWarcRecord(data)
		if perr != nil {
			w.Errs = append(w.Errs, fmt.Sprintf("%s offset %d: %v", base, start, perr))
		} else {
			rec.File, rec.Offset = base, start
			w.Recs = append(w.Recs, rec)
		}
		w.offsets[base] = off + cr.n
	}
}

func parseWarcRecord(data []byte) (*WarcRec, error) {
	br := bufio.NewReader(bytes.NewReader(data))
	line, err := br.ReadString('\n')
	if err != nil || !strings.HasPrefix(line, "WARC/1.") {
		return nil, fmt.Errorf("member does not start with a WARC version line: %q", line)
	}
	rec := &WarcRec{Headers: map[string]string{}}
	consumed := len(line)
	for {
		l, err := br.ReadString('\n')
		if err != nil {
			return nil, fmt.Errorf("header block truncated")
		}
		consumed += len(l)
		l = strings.TrimRight(l, "\r\n")
		if l == "" {
			break
		}
		i := strings.IndexByte(l, ':')
		if i < 0 {
			return nil, fmt.Errorf("malformed header line %q", l)
		}
		rec.Headers[strings.ToLower(strings.TrimSpace(l[:i]))] = strings.TrimSpace(l[i+1:])
	}
	rec.Type = rec.Headers["warc-type"]
	rec.TargetURI = strings.Trim(rec.Headers["warc-target-uri"], "<>")
	if rec.TargetURI != "" {
		rec.TargetKey = URIKey(rec.TargetURI)
	}
	cl, err := strconv.Atoi(rec.Headers["content-length"])
	if err != nil {
		return nil, fmt.Errorf("missing/bad Content-Length")
	}
	rest := data[consumed:]
	if len(rest) != cl+4 {
		return nil, fmt.Errorf("record block length %d does not match Content-Length %d (+4)", len(rest), cl)
	}
	if string(rest[cl:]) != "\r\n\r\n" {
		return nil, fmt.Errorf("record not terminated by CRLFCRLF")
	}
	block := rest[:cl]
	rec.BlockLen = cl
	if d := rec.Headers["warc-payload-digest"]; d != "" {
		rec.DigestHdr = b32ToHex(d)
	}
	if bd := rec.Headers["warc-block-digest"]; bd != "" {
		if b32ToHex(bd) != SHA1Hex(block) {
			return nil, fmt.Errorf("WARC-Block-Digest does not match the block")
		}
	}
	rec.RefersURI = rec.Headers["warc-refers-to-target-uri"]
	switch rec.Type {
	case "response":
		resp, err := http.ReadResponse(bufio.NewReader(bytes.NewReader(block)), nil)
		if err != nil {
			return nil, fmt.Errorf("response block is not an HTTP response: %v", err)
		}
		body, err := io.ReadAll(resp.Body)
		rec.HTTPStatus = resp.StatusCode
		if err != nil {
			// a truncated HTTP message inside a well-formed record (possible after an origin fault)
			rec.Headers["x-body-error"] = err.Error()
		} else {
			rec.PayloadSHA = SHA1Hex(body)
			rec.PayloadLen = len(body)
		}
	case "revisit":
		resp, err := http.ReadResponse(bufio.NewReader(bytes.NewReader(block)), nil)
		if err == nil {
			rec.HTTPStatus = resp.StatusCode
		}
	case "request":
		if _, err := http.ReadRequest(bufio.NewReader(bytes.NewReader(block))); err != nil {
			return nil, fmt.Errorf("request block is not an HTTP request: %v", err)
		}
	}
	return rec, nil
}

// OpenFiles lists files still carrying the .open suffix.
func (w *WarcIndex) OpenFiles() []string {
	ents, _ := os.ReadDir(w.dir)
	var out []string
	for _, e := range ents {
		if strings.HasSuffix(e.Name(), ".open") {
			out = append(out, e.Name())
		}
	}
	return out
}
