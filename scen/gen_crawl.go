package scen

import (
	"fmt"
	"strings"
)

// CrawlOpts selects the emphasis of a generated crawl scenario.
type CrawlOpts struct {
	Prop        string
	MinSeeds    int
	MaxSeeds    int
	Faults      bool // transient origin faults (resets, short bodies, dial errors)
	BodyVariety bool // sizes / framings / encodings (C02)
	Adversarial bool // endless redirects, nested playlists, always failing (C06)
	Hops        bool // outlinks and max-hops > 0
	Filters     bool // include/exclude filters and out-of-scope URLs (C05)
	HQ          bool
	Small       bool // keep runs short (stop/kill enumeration)
	NoBadSeeds  bool
	RateLimit   int  // 0: sometimes, 1: always, -1: never
	Ports       bool // some origins listen on an explicit non-default port
	Rotation    bool // 1 MB WARC files and enough incompressible bytes to fill several: the writer rotates files during the crawl
	BigBodies   bool // large spooled text bodies cut mid-transfer (C16)
	ManyHosts   int  // extra seeds on distinct hosts that answer 429 (C16: limiter table bound)
}

// Expect values
const (
	Must    = "must"     // requested before the owning seed is reported finished
	MustEnd = "must-end" // requested at least once by the end of the run
	May     = "may"
	Never   = "never"
)

type crawlGen struct {
	*Gen
	o         CrawlOpts
	shared    []string // asset URLs shared across seeds
	sharedR   map[string]*Resource
	sharedOut []string // outlink targets referenced from several hub pages
	cfg       *Cfg
	reliable  bool // the page being built is certainly fetched with status 200
	rowN      int
	exclHost  string
	bigHub    bool // one hub page with more than a hundred outlinks has been generated
}

// followed is the expectation for the target of a single redirect from an asset.
func (c *crawlGen) followed() string {
	if c.cfg != nil && c.cfg.MaxRedirect == 0 {
		return Never
	}
	return Must
}

func (c *crawlGen) row(value string) QRow {
	c.rowN++
	return QRow{ID: fmt.Sprintf("q%04d", c.rowN), Value: value}
}

func (c *crawlGen) res(host, target string, owner string, level int, expect string, resp ...Response) *Resource {
	r := &Resource{Resp: resp, Expect: expect, Seed: owner, Level: level, Tags: map[string]string{}}
	c.Add(host, target, r)
	return r
}

func (c *crawlGen) body(kindHint string) (string, Body) {
	// returns content-type and body
	if !c.o.BodyVariety {
		switch kindHint {
		case "img":
			return "image/png", Bin(64+c.N(400), c.Uid())
		case "css":
			return "text/css", Lit(fmt.Sprintf("body{color:#%03d}", c.N(999)))
		case "js":
			return "application/javascript", Lit(fmt.Sprintf("var x%d=1;", c.Uid()))
		default:
			return "text/plain", Pad(50+c.N(300), c.Uid())
		}
	}
	sizes := []int{0, 1, 500, 1023, 1024, 1025, 2047, 2048, 2049, 5000, 70000}
	if c.Chance(1, 40) {
		sizes = []int{2097151, 2097152, 2097153}
	}
	sz := sizes[c.N(len(sizes))]
	switch c.N(3) {
	case 0:
		return "image/png", Bin(sz, c.Uid())
	case 1:
		return "text/plain", Pad(sz, c.Uid())
	default:
		return "application/octet-stream", Bin(sz, 1000+c.N(3)) // few seeds => identical payloads => revisit path
	}
}

func (c *crawlGen) framing(r *Response) {
	if !c.o.BodyVariety {
		if c.Chance(1, 6) {
			r.Chunked = true
		}
		return
	}
	switch c.N(4) {
	case 0:
		r.Chunked = true
	case 1:
		r.NoLen = true
	}
	if c.Chance(1, 3) {
		r.Gzip = true
	}
	if c.Chance(1, 4) {
		r.Pieces = 2 + c.N(3)
	}
}

// asset adds one asset under page (host) and returns the HTML snippet referencing it.
func (c *crawlGen) asset(host, owner string, level int, maxRetry int, seencheck bool) string {
	name := c.Name("a")
	kind := c.N(16)
	if !c.o.Faults && (kind == 9 || kind == 10) {
		kind = 0
	}
	if c.o.BigBodies && c.Chance(1, 6) {
		kind = 16
	}
	if c.o.Rotation && c.Chance(1, 2) {
		kind = 17
	}
	if c.o.Prop == "C13" && c.Chance(1, 3) {
		kind = 7 // a throttling asset in the middle of a page: the assets after it enter the limiter for the same host
	}
	switch kind {
	case 0, 1, 2: // plain ok image, various reference forms
		ct, b := c.body("img")
		rp := OK(ct, b)
		c.framing(&rp)
		p := "/img/" + name + ".png"
		c.res(host, p, owner, level, Must, rp)
		switch c.N(4) {
		case 0:
			return `<img src="` + p + `">`
		case 1:
			return `<img src='` + URL(host, p) + `'>`
		case 2:
			return `<img src=//` + host + p + `>`
		default:
			return `<div style="background-image: url('` + p + `')"></div>`
		}
	case 3: // stylesheet
		ct, b := c.body("css")
		p := "/css/" + name + ".css"
		c.res(host, p, owner, level, Must, OK(ct, b))
		return `<link rel="stylesheet" href="` + p + `">`
	case 4: // script
		ct, b := c.body("js")
		p := "/js/" + name + ".js"
		c.res(host, p, owner, level, Must, OK(ct, b))
		return `<script src="` + p + `"></script>`
	case 5: // 404 asset
		p := "/missing/" + name + ".gif"
		c.res(host, p, owner, level, Must, Status(404))
		return `<img src="` + p + `">`
	case 6: // 5xx then ok
		p := "/flaky/" + name + ".png"
		r := c.res(host, p, owner, level, Must, Status(503), OK("image/png", Bin(120, c.Uid())))
		r.Tags["flaky"] = "1"
		return `<img src="` + p + `">`
	case 7: // always failing
		p := "/dead/" + name + ".png"
		st := c.PickInt(500, 502, 429, 408)
		if c.o.Prop == "C13" {
			st = c.PickInt(429, 408, 425, 429)
		}
		r := c.res(host, p, owner, level, Must, Status(st))
		r.Tags["attempts"] = fmt.Sprint(maxRetry + 1)
		return `<img src="` + p + `">`
	case 8: // duplicate reference to one asset
		p := "/dup/" + name + ".png"
		r := c.res(host, p, owner, level, Must, OK("image/png", Bin(90, c.Uid())))
		r.Tags["once"] = "1"
		return `<img src="` + p + `"><img src="` + URL(host, p) + `"><source src="` + p + `">`
	case 9: // connection-level fault then ok
		p := "/reset/" + name + ".png"
		f := c.Pick("close-before-status", "reset-headers", "reset-body", "short-body")
		r := c.res(host, p, owner, level, Must, Response{Fault: f, Status: 200, Headers: H("Content-Type", "image/png"), Body: Bin(3000, c.Uid())}, OK("image/png", Bin(150, c.Uid())))
		r.Tags["faulty"] = f
		return `<img src="` + p + `">`
	case 10: // slow body
		p := "/slow/" + name + ".png"
		c.res(host, p, owner, level, Must, Response{Fault: "slow", Status: 200, Headers: H("Content-Type", "image/png"), Body: Bin(2000, c.Uid()), Pieces: 3, DelayMs: 1000 * (1 + c.N(20))})
		return `<img src="` + p + `">`
	case 11: // invalid / unfetchable references (no site entry: must never reach the wire)
		return c.Pick(`<img src="javascript:void(0)">`, `<img src="data:image/png;base64,AAAA">`, `<img src="http://nodot/x.png">`,
			`<img src="mailto:a@b.example">`, `<img src="ftp://`+host+`/x.png">`, `<img src="http://localhost/x.png">`, `<img src="http://127.0.0.1/x.png">`, `<img src="http://127.0.0.1:8080/x.png">`, `<script src="//127.0.0.1:9000/x.js"></script>`,
			`<img src="http://archive.org/services/img/x.png">`, `<img src="">`)
	case 16: // large text body (spooled to disk) whose transfer is cut after the sniff window, then served in full
		p := "/bigtext/" + name + ".txt"
		r := c.res(host, p, owner, level, Must, Response{Fault: "reset-body", Status: 200, Headers: H("Content-Type", "text/plain"), Body: Pad(4400000+c.N(400000), c.Uid())}, OK("text/plain", Pad(300, c.Uid()))) // the origin sends half of it (> 2 MiB, so already spooled to disk) and resets
		r.Tags["faulty"] = "reset-body-big"
		return `<link rel="prefetch" href="` + p + `">`
	case 17: // a few hundred KB that do not compress (fills 1 MB WARC files quickly)
		p := "/blob/" + name + ".bin"
		c.res(host, p, owner, level, Must, OK("application/octet-stream", Bin(300000+c.N(250000), c.Uid())))
		return `<img src="` + p + `">`
	case 13: // asset that redirects to a fresh asset
		p := "/moved/" + name + ".png"
		tp := "/final/" + name + ".png"
		r := c.res(host, p, owner, level, Must, Redirect(c.PickInt(301, 302, 307), tp))
		r.Tags["asset-redirect"] = "1"
		c.res(host, tp, owner, level, c.followed(), OK("image/png", Bin(77, c.Uid()))).Tags["chain"] = "1"
		return `<img src="` + p + `">`
	case 14: // two assets, one of which redirects to the other: the target must be fetched once
		tp := "/lib/" + name + ".js"
		p := "/old/" + name + ".js"
		ref, loc := tp, tp
		if c.Chance(1, 2) {
			// the page spells the query its own way (relative link, %20), the redirect names the canonical absolute URL
			ref = tp + "?q=a%20b&r=1"
			tp = tp + "?q=a+b&r=1"
			loc = "http://" + host + tp
		}
		rt := c.res(host, tp, owner, level, Must, OK("application/javascript", Lit("var l=1;")))
		rt.Tags["once"] = "1"
		c.res(host, p, owner, level, Must, Redirect(301, loc))
		return `<script src="` + ref + `"></script><script src="` + p + `"></script>`
	case 15: // asset that redirects out of scope, next to a sibling that redirects normally
		p := "/gone/" + name + ".png"
		c.res(host, p, owner, level, Must, Redirect(302, "http://archive.org/wayback/"+name+".png"))
		p2 := "/moved2/" + name + ".css"
		tp2 := "/final2/" + name + ".css"
		c.res(host, p2, owner, level, Must, Redirect(301, tp2))
		c.res(host, tp2, owner, level, c.followed(), OK("text/css", Lit("a{}"))).Tags["chain"] = "1"
		return `<img src="` + p + `"><link rel="stylesheet" href="` + p2 + `">`
	default: // shared across seeds
		if len(c.shared) == 0 || c.Chance(1, 3) {
			h := c.Host()
			p := "/shared/" + name + ".png"
			r := c.res(h, p, "", level, May, OK("image/png", Bin(200, c.Uid())))
			c.shared = append(c.shared, URL(h, p))
			if c.sharedR == nil {
				c.sharedR = map[string]*Resource{}
			}
			c.sharedR[URL(h, p)] = r
		}
		u := c.shared[c.N(len(c.shared))]
		if c.reliable {
			c.sharedR[u].Expect = MustEnd
			if c.sharedR[u].Tags["needed-by"] == "" {
				c.sharedR[u].Tags["needed-by"] = owner // the expectation holds as long as this seed is part of the crawl
			}
		}
		return `<img src="` + u + `">`
	}
}

func (c *crawlGen) page(host, path, owner string, nAssets int, cfg *Cfg, outlinks []string) *Resource {
	var sb strings.Builder
	sb.WriteString("<!DOCTYPE html><html><head><title>" + c.Name("t") + "</title>")
	var parts []string
	for i := 0; i < nAssets; i++ {
		parts = append(parts, c.asset(host, owner, 1, cfg.MaxRetry, cfg.Seencheck))
	}
	for _, p := range parts {
		if strings.HasPrefix(p, "<link") || strings.HasPrefix(p, "<script") {
			sb.WriteString(p)
		}
	}
	sb.WriteString("</head><body><p>" + string(PadText(40+c.N(200), c.Uid())) + "</p>")
	for _, p := range parts {
		if !(strings.HasPrefix(p, "<link") || strings.HasPrefix(p, "<script")) {
			sb.WriteString(p)
		}
	}
	for _, o := range outlinks {
		sb.WriteString(`<a href="` + o + `">link</a>`)
	}
	sb.WriteString("</body></html>")
	rp := OK("text/html; charset=utf-8", Lit(sb.String()))
	if c.Chance(1, 5) {
		rp.Chunked = true
	}
	if c.o.BodyVariety && c.Chance(1, 3) {
		rp.Gzip = true
	}
	return c.res(host, path, owner, 0, Must, rp)
}

// seed adds one seed of a randomly chosen shape and returns its queue row(s).
func (c *crawlGen) seed(cfg *Cfg) []QRow {
	host := c.Host()
	if c.o.Ports && c.Chance(1, 2) {
		host += c.Pick(":8080", ":8443", ":81")
	}
	if c.o.Prop == "C13" {
		// pages with many assets on one host (retries do not pass the limiter again, by design: later assets do)
		p := "/" + c.Name("page") + "/index.html"
		v := URL(host, p)
		c.reliable = true
		c.page(host, p, v, 4+c.N(5), cfg, nil)
		c.reliable = false
		return []QRow{c.row(v)}
	}
	shape := c.N(15)
	if !c.o.Adversarial && shape == 14 {
		shape = 13
	}
	if c.o.NoBadSeeds && (shape == 8 || shape == 9 || shape == 10) {
		shape = 1
	}
	if !c.o.Adversarial && shape == 11 {
		shape = 2
	}
	if !c.o.Hops && shape == 12 {
		shape = 1
	}
	if c.o.Hops && cfg.MaxHops > 0 && c.Chance(1, 3) {
		shape = 12 // pages with outlinks matter whenever hops are allowed
	}
	if c.o.Prop == "C06" && c.o.Hops && cfg.MaxRedirect >= 1 && c.Chance(1, 6) {
		shape = 15 // a seed that is itself some hops away and redirects: the target inherits those hops
	}
	if c.o.Prop == "C02" && cfg.MaxRetry > 0 && c.Chance(1, 4) {
		shape = 7 // every attempt's response is a capture of its own: retried URLs matter for "captured before finished"
	}
	maxAssets := 7
	if c.o.Small {
		maxAssets = 3
	}
	switch shape {
	case 0: // plain page
		p := "/" + c.Name("plain")
		v := URL(host, p)
		c.res(host, p, v, 0, Must, OK("text/html", Lit("<html><body>hello "+c.Name("w")+"</body></html>")))
		return []QRow{c.row(v)}
	case 1, 2, 3: // page with assets
		p := "/" + c.Name("page") + "/index.html"
		v := URL(host, p)
		c.reliable = true
		c.page(host, p, v, c.N(maxAssets+1), cfg, nil)
		c.reliable = false
		return []QRow{c.row(v)}
	case 4, 5: // redirect chain
		L := c.N(cfg.MaxRedirect + 4)
		base := c.Name("r")
		v := URL(host, "/"+base+"/0")
		for i := 0; i <= L; i++ {
			p := fmt.Sprintf("/%s/%d", base, i)
			exp := Must
			if i > cfg.MaxRedirect {
				exp = Never
			}
			if i < L {
				loc := fmt.Sprintf("/%s/%d", base, i+1)
				if c.Chance(1, 3) {
					loc = URL(host, loc)
				}
				r := c.res(host, p, v, 0, exp, Redirect(c.PickInt(301, 302, 303, 307, 308), loc))
				r.Tags["chain"] = fmt.Sprint(i)
			} else {
				c.reliable = exp == Must
				r := c.page(host, p, v, c.N(3), cfg, nil)
				c.reliable = false
				r.Expect = exp
				r.Tags["chain"] = fmt.Sprint(i)
				if exp == Never {
					// assets of a page that is never reached are never requested either
					for k, rr := range c.Sc.Site {
						if rr.Seed == v && rr.Level == 1 && strings.HasPrefix(k, host+"/") && rr.Expect == Must {
							rr.Expect = Never
						}
					}
				}
			}
		}
		return []QRow{c.row(v)}
	case 6: // failing seed
		p := "/" + c.Name("fail")
		v := URL(host, p)
		st := c.PickInt(404, 410, 500, 503, 403, 429, 429)
		r := c.res(host, p, v, 0, Must, Status(st))
		if st >= 500 || st == 429 {
			r.Tags["attempts"] = fmt.Sprint(cfg.MaxRetry + 1)
		}
		return []QRow{c.row(v)}
	case 7: // retry then ok
		p := "/" + c.Name("retry")
		v := URL(host, p)
		first := Status(c.PickInt(500, 429, 408, 425, 503, 500))
		if c.Chance(1, 2) {
			first.Body = Pad(2000+c.N(60000), c.Uid()) // an error page of some size: its record takes several writes
		}
		c.res(host, p, v, 0, Must, first, OK("text/html", Lit("<html><body>finally</body></html>")))
		return []QRow{c.row(v)}
	case 8: // seed that cannot be normalised (no request may ever be sent)
		v := c.Pick("http://nodot/"+c.Name("x"), "ftp://"+host+"/"+c.Name("x"), "http://localhost/"+c.Name("x"), "http://127.0.0.1/"+c.Name("x"))
		return []QRow{c.row(v)}
	case 9: // unparseable row: discard path
		v := c.Pick("::bad::"+c.Name("x"), "no-scheme-"+c.Name("x"), "%zz"+c.Name("x"))
		return []QRow{c.row(v)}
	case 10: // excluded seed
		v := "http://archive.org/details/" + c.Name("x")
		return []QRow{c.row(v)}
	case 11: // redirect loop
		a, b := "/"+c.Name("loopa"), "/"+c.Name("loopb")
		v := URL(host, a)
		c.res(host, a, v, 0, Must, Redirect(302, b)).Tags["loop"] = "1"
		c.res(host, b, v, 0, May, Redirect(302, a)).Tags["loop"] = "1"
		return []QRow{c.row(v)}
	case 12: // page with outlinks (hops)
		p := "/" + c.Name("hub") + "/"
		v := URL(host, p)
		var outs []string
		n := 1 + c.N(3)
		if c.Chance(1, 3) {
			n = 4 + c.N(8) // more outlinks than any stage channel can buffer
		}
		if c.o.Prop == "C15" && !cfg.UseHQ && !c.bigHub && c.Chance(1, 2) {
			n = 101 + c.N(120) // more outlinks than one queue batch holds: size-triggered batches, several in flight
			c.bigHub = true
		}
		if len(c.sharedOut) > 0 && c.Chance(1, 2) {
			outs = append(outs, c.sharedOut[c.N(len(c.sharedOut))])
		}
		for i := 0; i < n; i++ {
			op := "/" + c.Name("leaf") + ".html"
			exp := Never
			if cfg.MaxHops > 0 {
				exp = MustEnd
			}
			c.res(host, op, "", 0, exp, OK("text/html", Lit("<html><body>leaf "+c.Name("l")+"</body></html>"))).Tags["outlink-of"] = v
			outs = append(outs, op)
			if i == 0 {
				c.sharedOut = append(c.sharedOut, URL(host, op))
			}
		}
		if len(outs) > 0 && c.Chance(1, 2) {
			outs = append(outs, outs[c.N(len(outs))]) // the same link twice on one page
		}
		if c.o.Prop == "C15" && len(c.Sc.Queue) > 0 && c.Chance(1, 2) {
			// a link to a URL that is itself a row of the queue (waiting or being crawled right now)
			if q := c.Sc.Queue[c.N(len(c.Sc.Queue))]; strings.HasPrefix(q.Value, "http://") {
				outs = append(outs, q.Value)
			}
		}
		c.reliable = true
		hub := c.page(host, p, v, c.N(3), cfg, outs)
		c.reliable = false
		if c.Chance(1, 3) {
			// one more outlink announced in a Link header (pagination style)
			op := "/" + c.Name("next") + ".html"
			exp := Never
			if cfg.MaxHops > 0 {
				exp = MustEnd
			}
			c.res(host, op, "", 0, exp, OK("text/html", Lit("<html><body>next "+c.Name("l")+"</body></html>"))).Tags["outlink-of"] = v
			hub.Resp[0].Headers = append(hub.Resp[0].Headers, [2]string{"Link", "<" + URL(host, op) + `>; rel="next"`})
		}
		return []QRow{c.row(v)}
	case 15: // a queue row that already carries hops (0 .. max-hops+1), redirecting once or twice to a hub page with outlinks
		base := c.Name("hop")
		v := URL(host, "/"+base+"/from")
		nred := 1
		if cfg.MaxRedirect >= 2 && c.Chance(1, 2) {
			nred = 2
		}
		cur := "/" + base + "/from"
		for i := 0; i < nred; i++ {
			next := fmt.Sprintf("/%s/to%d/", base, i)
			loc := next
			if c.Chance(1, 3) {
				loc = URL(host, next)
			}
			c.res(host, cur, v, 0, Must, Redirect(c.PickInt(301, 302, 307), loc))
			cur = next
		}
		var outs []string
		for i, n := 0, 1+c.N(3); i < n; i++ {
			op := "/" + c.Name("far") + ".html"
			c.res(host, op, "", 0, May, OK("text/html", Lit("<html><body>far "+c.Name("l")+"</body></html>")))
			outs = append(outs, op)
		}
		c.reliable = true
		c.page(host, cur, v, c.N(2), cfg, outs)
		c.reliable = false
		r := c.row(v)
		r.Hops = c.N(cfg.MaxHops + 2)
		return []QRow{r}
	case 14: // endlessly nested JSON resources, optionally each behind a redirect: only three levels below the page may be fetched
		p := "/" + c.Name("deep") + "/index.html"
		v := URL(host, p)
		viaRedirect := c.Chance(1, 2) && cfg.MaxRedirect >= 1
		depth := 5 + c.N(3)
		first := ""
		for lvl := 1; lvl <= depth; lvl++ {
			np := fmt.Sprintf("/nest/%s-n%d.json", c.Name("z"), lvl)
			if lvl == 1 {
				first = np
			}
			_ = np
		}
		// build from the deepest level upwards so that each document can name the next one
		next := ""
		names := make([]string, depth+2)
		for lvl := depth; lvl >= 1; lvl-- {
			np := fmt.Sprintf("/nest/%s-n%d.json", c.Name("z"), lvl)
			names[lvl] = np
			body := `{"leaf":true}`
			if next != "" {
				body = `{"next":"` + URL(host, next) + `","n":` + fmt.Sprint(lvl) + `}`
			}
			exp := Must
			if lvl > 3 {
				exp = Never
			}
			if viaRedirect {
				tp := fmt.Sprintf("/nest/%s-t%d.json", c.Name("z"), lvl)
				rr := c.res(host, np, v, lvl, exp, Redirect(302, tp))
				rr.Tags["nest"] = "redirect"
				rt := c.res(host, tp, v, lvl, exp, OK("application/json", Lit(body)))
				rt.Tags["nest"] = "target"
			} else {
				c.res(host, np, v, lvl, exp, OK("application/json", Lit(body))).Tags["nest"] = "plain"
			}
			next = np
		}
		first = names[1]
		c.res(host, p, v, 0, Must, OK("text/html", Lit(`<html><head><link rel="preload" href="`+first+`"></head><body>deep</body></html>`)))
		return []QRow{c.row(v)}
	default: // nested: page -> JSON asset -> media files named in it
		p := "/" + c.Name("gallery") + "/index.html"
		v := URL(host, p)
		js := "/" + c.Name("data") + ".json"
		var items []string
		ns := 1 + c.N(3)
		for i := 0; i < ns; i++ {
			sp := "/media/" + c.Name("m") + ".png"
			c.res(host, sp, v, 2, Must, OK("image/png", Bin(300, c.Uid())))
			items = append(items, fmt.Sprintf(`{"id":%d,"src":"%s"}`, i, URL(host, sp)))
		}
		c.res(host, js, v, 1, Must, OK("application/json", Lit(`{"items":[`+strings.Join(items, ",")+`]}`)))
		c.res(host, p, v, 0, Must, OK("text/html", Lit(`<html><head><link rel="preload" href="`+js+`"></head><body>gallery</body></html>`)))
		return []QRow{c.row(v)}
	}
}

// GenCrawl draws a complete crawl scenario.
func GenCrawl(t *Tape, o CrawlOpts) *Scenario {
	g := NewGen(t, "crawl", o.Prop)
	c := &crawlGen{Gen: g, o: o}
	cfg := &g.Sc.Cfg
	c.cfg = cfg
	cfg.Workers = 1 + c.N(4)
	cfg.MaxConcurrentAssets = 1 + c.N(4)
	cfg.MaxRetry = c.N(3)
	if o.Prop == "C13" && cfg.MaxRetry == 0 {
		cfg.MaxRetry = 1 + c.N(2)
	}
	cfg.MaxRedirect = c.N(5)
	cfg.Seencheck = !c.Chance(1, 4)
	cfg.PoolSize = 1 + c.N(3)
	cfg.OnDisk = c.Chance(1, 6)
	if o.Rotation {
		cfg.WARCSizeMB = 1
	}
	cfg.DisableLocalDedupe = c.Chance(1, 3)
	cfg.DedupeSize = c.PickInt(1024, 1024, 64, 2048)
	switch c.N(4) {
	case 0:
		cfg.DiscardStatus = []int{429}
	case 1:
		cfg.DiscardStatus = []int{429, 404}
	case 2:
		cfg.DiscardStatus = []int{}
	default:
		cfg.DiscardStatus = []int{429, 503, 301}
	}
	switch o.RateLimit {
	case 1:
		cfg.RateLimit = true
	case 0:
		cfg.RateLimit = c.Chance(1, 4)
	}
	if cfg.RateLimit {
		cfg.RLCapacity = float64(c.PickInt(1, 2, 5, 150))
		cfg.RLRate = float64(c.PickInt(1, 2, 10, 50))
		cfg.RLCleanupSec = c.PickInt(300, 300, 5, 60)
		if o.Prop == "C13" {
			cfg.RLCleanupSec = 300 // the bucket that holds the penalty stays in the table
			cfg.MaxConcurrentAssets = 1 + c.N(2)
		}
	}
	if o.Hops {
		cfg.MaxHops = c.N(3)
	}
	if o.HQ {
		cfg.UseHQ = true
	}
	cfg.Proxy = c.Chance(1, 5)
	n := o.MinSeeds
	if o.MaxSeeds > o.MinSeeds {
		n += c.N(o.MaxSeeds - o.MinSeeds + 1)
	}
	for i := 0; i < n; i++ {
		g.Sc.Queue = append(g.Sc.Queue, c.seed(cfg)...)
	}
	if o.Faults && c.Chance(1, 3) && len(g.Sc.Queue) > 0 {
		// dial-level faults on one host of the run
		for k := range g.Sc.Site {
			_ = k
			break
		}
	}
	if (o.Prop == "C01" || o.Filters) && !o.NoBadSeeds && c.Chance(1, 4) {
		// an include filter that every generated origin passes (IP-literal hosts) and seeds that miss it:
		// such a seed is never fetched, and still has to be finished exactly once
		cfg.IncludeString = []string{"://10."}
		for i := 0; i < 1+c.N(2); i++ {
			g.Sc.Queue = append(g.Sc.Queue, c.row("http://outside"+fmt.Sprint(c.Uid())+".example/"+c.Name("oos")))
		}
	}
	for i := 0; i < o.ManyHosts; i++ {
		h := c.Host()
		p := "/" + c.Name("limited")
		v := URL(h, p)
		c.res(h, p, v, 0, Must, Status(c.PickInt(429, 403, 429, 408)))
		g.Sc.Queue = append(g.Sc.Queue, c.row(v))
	}
	if o.HQ {
		plan := &HQPlan{Faults: map[string][]string{}}
		if o.Faults {
			for _, kind := range []string{"add", "delete", "get", "seencheck"} {
				n := c.N(4)
				if (kind == "add" || kind == "delete") && c.Chance(1, 4) {
					n = 4 + c.N(5) // an outage: longer than any single back-off or client timeout
				}
				for i := 0; i < n; i++ {
					f := c.Pick("", "500", "reset-before", "reset-after", "timeout", "500")
					plan.Faults[kind] = append(plan.Faults[kind], f)
				}
			}
		}
		g.Sc.HQ = plan
		cfg.HQBatchSize = 1 + c.N(4)
		// cfg.HQBatchConcurrency stays 1: with concurrent sub-fetches the simulated crawl did not stay within the wall-clock
		// limit (a run of 1.6 million goroutines was seen); see DESIGN.md A.9
	}
	if o.Faults && !cfg.UseHQ && (o.Prop == "C01" || o.Prop == "C15" || o.Prop == "C04" || o.Prop == "C02") && c.Chance(1, 4) {
		// the local queue's database fails now and then (a claim or a delete that has to be repeated): finite, so everything still drains
		g.Sc.LQFaults = map[string][]string{}
		for _, op := range []string{"get", "delete"} {
			for i, n := 0, c.N(5); i < n; i++ {
				g.Sc.LQFaults[op] = append(g.Sc.LQFaults[op], c.Pick("", "err", "err"))
			}
		}
	}
	g.Sc.StopAtIdle = true
	g.Sc.Sched.MaxSteps = 60000
	if c.bigHub {
		g.Sc.Sched.MaxSteps = 600000
		g.Sc.Sched.LazyClock = true // a hundred outlinks inside one batch-timer period
	}
	g.Sc.Sched.MaxSimSec = 4 * 3600
	return g.Sc
}

// WithDiskHistory adds a boundary-crossing free-space history (one reading per watchdog tick) to a crawl scenario.
func WithDiskHistory(t *Tape, sc *Scenario) {
	g := &Gen{T: t}
	bs := int64([]int{512, 4096, 65536}[g.N(3)])
	totalGiB := uint64([]int{64, 200, 256, 300, 1000}[g.N(5)])
	total := totalGiB << 30
	if g.Chance(1, 3) {
		sc.Cfg.MinSpaceGiB = float64([]int{1, 20, 100}[g.N(3)])
	}
	var thr uint64
	if sc.Cfg.MinSpaceGiB > 0 {
		thr = uint64(sc.Cfg.MinSpaceGiB) << 30
	} else if totalGiB <= 256 {
		thr = (50 << 30) * totalGiB / 256
	} else {
		thr = 50 << 30
	}
	n := 3 + g.N(10)
	// first reading (start-up check) must be acceptable, or Zeno exits before anything can be observed
	sc.Disk = append(sc.Disk, DiskReading{Blocks: total / uint64(bs), Bavail: (thr + (10 << 30)) / uint64(bs), Bsize: bs})
	for i := 0; i < n; i++ {
		var free uint64
		switch g.N(6) {
		case 0:
			free = thr
		case 1:
			free = thr - uint64(bs)
		case 2:
			free = thr + uint64(bs)
		case 3:
			free = thr / 2
		case 4:
			free = 0
		default:
			free = thr + (5 << 30)
		}
		if free > total {
			free = total
		}
		sc.Disk = append(sc.Disk, DiskReading{Blocks: total / uint64(bs), Bavail: free / uint64(bs), Bsize: bs})
	}
	// end with plenty of space so that the crawl can drain
	sc.Disk = append(sc.Disk, DiskReading{Blocks: total / uint64(bs), Bavail: (thr + (20 << 30)) / uint64(bs), Bsize: bs})
}
