package scen

// Event is one entry of the canonical event log.
type Event struct {
	Step  int      `json:"s"`
	T     int64    `json:"t"` // fake nanoseconds since run start
	Actor string   `json:"a"`
	Point string   `json:"p"`
	Args  []string `json:"x,omitempty"`
	Park  bool     `json:"k,omitempty"`
}

// Violation is one oracle verdict.
type Violation struct {
	Property  string `json:"property"`
	Oracle    string `json:"oracle"`
	Signature string `json:"signature"`
	Detail    string `json:"detail"`
	Step      int    `json:"step"`
	T         int64  `json:"t"`
}

// RunInput is what the orchestrator hands to one simulation process.
type RunInput struct {
	Property string    `json:"property"`
	Seed     uint64    `json:"seed"`
	Scenario *Scenario `json:"scenario"`
	Tape     []int     `json:"tape,omitempty"`
	Replay   bool      `json:"replay,omitempty"`
	JobDir   string    `json:"job_dir"`
	Phase    int       `json:"phase,omitempty"`
	KeepLog  bool      `json:"keep_log,omitempty"`
	Out      string    `json:"out"`
}

// RunRecord is what one simulation process reports back.
type RunRecord struct {
	Property   string         `json:"property"`
	Seed       uint64         `json:"seed"`
	Phase      int            `json:"phase,omitempty"`
	EndReason  string         `json:"end_reason"`
	Hash       string         `json:"hash"`
	Steps      int            `json:"steps"`
	Events     int            `json:"events"`
	SimNs      int64          `json:"sim_ns"`
	Pairs      int            `json:"pairs"`
	PairList   []string       `json:"pair_list,omitempty"`
	Anon       int            `json:"anon"`
	Tape       []int          `json:"tape"`
	Violations []Violation    `json:"violations"`
	Probes     map[string]int `json:"probes"`
	Faults     map[string]int `json:"faults"`
	Parked     []string       `json:"parked_at_end,omitempty"`
	Requests   int            `json:"requests"`
	Summary    map[string]any `json:"summary,omitempty"`
	Log        []*Event       `json:"log,omitempty"`
	Panic      string         `json:"panic,omitempty"`
}
