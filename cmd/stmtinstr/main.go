// stmtinstr copies a Zeno package into a scratch package and instruments it at statement level:
//   - a simsync.Yield() before every statement of every function body,
//   - read-modify-write on struct fields / map elements that is not an atomic call becomes load; Yield; store,
//   - sync.Mutex / sync.RWMutex become simsync.Mutex.
//
// usage: stmtinstr <src dir> <dst dir> <package name>
package main

import (
	"bytes"
	"fmt"
	"go/ast"
	"go/format"
	"go/parser"
	"go/printer"
	"go/token"
	"os"
	"path/filepath"
	"strings"
)

const simsyncPath = "github.com/internetarchive/Zeno/verifsim/sim/simsync"

func yieldStmt() ast.Stmt {
	return &ast.ExprStmt{X: &ast.CallExpr{Fun: &ast.SelectorExpr{X: ast.NewIdent("simsync"), Sel: ast.NewIdent("Yield")}}}
}

func exprString(fset *token.FileSet, e ast.Expr) string {
	var b bytes.Buffer
	format.Node(&b, fset, e)
	return b.String()
}

func isFieldish(e ast.Expr) bool {
	switch v := e.(type) {
	case *ast.SelectorExpr:
		return true
	case *ast.IndexExpr:
		return true
	case *ast.StarExpr:
		return isFieldish(v.X) || true
	}
	return false
}

var tmpN int

// splitRMW rewrites a non-atomic read-modify-write statement into load / yield / store.
func splitRMW(fset *token.FileSet, s ast.Stmt) []ast.Stmt {
	switch v := s.(type) {
	case *ast.IncDecStmt:
		if !isFieldish(v.X) {
			return nil
		}
		tmpN++
		tmp := ast.NewIdent(fmt.Sprintf("simTmp%d", tmpN))
		op := token.ADD
		if v.Tok == token.DEC {
			op = token.SUB
		}
		return []ast.Stmt{
			&ast.AssignStmt{Lhs: []ast.Expr{tmp}, Tok: token.DEFINE, Rhs: []ast.Expr{v.X}},
			yieldStmt(),
			&ast.AssignStmt{Lhs: []ast.Expr{v.X}, Tok: token.ASSIGN, Rhs: []ast.Expr{&ast.BinaryExpr{X: tmp, Op: op, Y: &ast.BasicLit{Kind: token.INT, Value: "1"}}}},
		}
	case *ast.AssignStmt:
		if len(v.Lhs) != 1 || len(v.Rhs) != 1 || !isFieldish(v.Lhs[0]) {
			return nil
		}
		var op token.Token
		switch v.Tok {
		case token.ADD_ASSIGN:
			op = token.ADD
		case token.SUB_ASSIGN:
			op = token.SUB
		case token.MUL_ASSIGN:
			op = token.MUL
		case token.QUO_ASSIGN:
			op = token.QUO
		case token.OR_ASSIGN:
			op = token.OR
		case token.AND_ASSIGN:
			op = token.AND
		case token.ASSIGN:
			// x.f = x.f <op> e
			be, ok := v.Rhs[0].(*ast.BinaryExpr)
			if !ok || exprString(fset, be.X) != exprString(fset, v.Lhs[0]) {
				return nil
			}
			tmpN++
			tmp := ast.NewIdent(fmt.Sprintf("simTmp%d", tmpN))
			return []ast.Stmt{
				&ast.AssignStmt{Lhs: []ast.Expr{tmp}, Tok: token.DEFINE, Rhs: []ast.Expr{v.Lhs[0]}},
				yieldStmt(),
				&ast.AssignStmt{Lhs: []ast.Expr{v.Lhs[0]}, Tok: token.ASSIGN, Rhs: []ast.Expr{&ast.BinaryExpr{X: tmp, Op: be.Op, Y: be.Y}}},
			}
		default:
			return nil
		}
		tmpN++
		tmp := ast.NewIdent(fmt.Sprintf("simTmp%d", tmpN))
		return []ast.Stmt{
			&ast.AssignStmt{Lhs: []ast.Expr{tmp}, Tok: token.DEFINE, Rhs: []ast.Expr{v.Lhs[0]}},
			yieldStmt(),
			&ast.AssignStmt{Lhs: []ast.Expr{v.Lhs[0]}, Tok: token.ASSIGN, Rhs: []ast.Expr{&ast.BinaryExpr{X: tmp, Op: op, Y: v.Rhs[0]}}},
		}
	}
	return nil
}

// hoistCalls pulls calls nested in the arguments / arithmetic operands of e out into temporaries,
// separated by yields, so that "x.Store(x.Load() + 1)" becomes load; yield; store.
// Evaluation order is preserved (left to right); short-circuit operators are never entered.
func hoistCalls(e ast.Expr, pre *[]ast.Stmt, top bool) ast.Expr {
	switch v := e.(type) {
	case *ast.ParenExpr:
		v.X = hoistCalls(v.X, pre, false)
	case *ast.UnaryExpr:
		if v.Op != token.AND && v.Op != token.ARROW {
			v.X = hoistCalls(v.X, pre, false)
		}
	case *ast.BinaryExpr:
		switch v.Op {
		case token.ADD, token.SUB, token.MUL, token.QUO, token.REM, token.AND, token.OR, token.XOR, token.SHL, token.SHR:
			v.X = hoistCalls(v.X, pre, false)
			v.Y = hoistCalls(v.Y, pre, false)
		}
	case *ast.CallExpr:
		if fl, ok := v.Fun.(*ast.FuncLit); ok {
			_ = fl
			return e
		}
		if v.Ellipsis.IsValid() {
			return e
		}
		for i := range v.Args {
			v.Args[i] = hoistCalls(v.Args[i], pre, false)
		}
		if !top {
			if id, ok := v.Fun.(*ast.Ident); ok {
				switch id.Name {
				case "len", "cap", "make", "new", "append", "min", "max", "panic", "recover", "delete", "copy", "close",
					"uint64", "int64", "uint32", "int32", "int", "uint", "float64", "float32", "string", "byte", "bool":
					return e
				}
			}
			tmpN++
			tmp := ast.NewIdent(fmt.Sprintf("simTmp%d", tmpN))
			*pre = append(*pre, &ast.AssignStmt{Lhs: []ast.Expr{tmp}, Tok: token.DEFINE, Rhs: []ast.Expr{v}}, yieldStmt())
			return tmp
		}
	}
	return e
}

func instrumentList(fset *token.FileSet, list []ast.Stmt) []ast.Stmt {
	var out []ast.Stmt
	for _, s := range list {
		instrumentStmt(fset, s)
		out = append(out, yieldStmt())
		if rep := splitRMW(fset, s); rep != nil {
			out = append(out, rep...)
			continue
		}
		var pre []ast.Stmt
		switch v := s.(type) {
		case *ast.ExprStmt:
			v.X = hoistCalls(v.X, &pre, true)
		case *ast.AssignStmt:
			if len(v.Rhs) == 1 {
				v.Rhs[0] = hoistCalls(v.Rhs[0], &pre, true)
			}
		case *ast.ReturnStmt:
			if len(v.Results) == 1 {
				v.Results[0] = hoistCalls(v.Results[0], &pre, true)
			}
		}
		out = append(out, pre...)
		out = append(out, s)
	}
	return out
}

func instrumentStmt(fset *token.FileSet, s ast.Stmt) {
	switch v := s.(type) {
	case *ast.BlockStmt:
		v.List = instrumentList(fset, v.List)
	case *ast.IfStmt:
		instrumentStmt(fset, v.Body)
		if v.Else != nil {
			instrumentStmt(fset, v.Else)
		}
	case *ast.ForStmt:
		instrumentStmt(fset, v.Body)
	case *ast.RangeStmt:
		instrumentStmt(fset, v.Body)
	case *ast.SwitchStmt:
		for _, c := range v.Body.List {
			instrumentStmt(fset, c)
		}
	case *ast.TypeSwitchStmt:
		for _, c := range v.Body.List {
			instrumentStmt(fset, c)
		}
	case *ast.SelectStmt:
		for _, c := range v.Body.List {
			instrumentStmt(fset, c)
		}
	case *ast.CaseClause:
		v.Body = instrumentList(fset, v.Body)
	case *ast.CommClause:
		v.Body = instrumentList(fset, v.Body)
	case *ast.LabeledStmt:
		instrumentStmt(fset, v.Stmt)
	}
}

func main() {
	if len(os.Args) != 4 {
		fmt.Fprintln(os.Stderr, "usage: stmtinstr <src dir> <dst dir> <package name>")
		os.Exit(2)
	}
	src, dst, pkg := os.Args[1], os.Args[2], os.Args[3]
	os.MkdirAll(dst, 0o755)
	ents, err := os.ReadDir(src)
	if err != nil {
		fmt.Fprintln(os.Stderr, err)
		os.Exit(2)
	}
	keep := map[string]bool{}
	for _, e := range ents {
		name := e.Name()
		if !strings.HasSuffix(name, ".go") || strings.HasSuffix(name, "_test.go") {
			continue
		}
		fset := token.NewFileSet()
		f, err := parser.ParseFile(fset, filepath.Join(src, name), nil, parser.ParseComments)
		if err != nil {
			fmt.Fprintln(os.Stderr, err)
			os.Exit(2)
		}
		f.Name.Name = pkg
		f.Comments = nil // positions would be wrong after the rewrite
		usedYield := false
		for _, d := range f.Decls {
			if fd, ok := d.(*ast.FuncDecl); ok && fd.Body != nil {
				fd.Doc = nil
				fd.Body.List = instrumentList(fset, fd.Body.List)
				usedYield = true
			}
			if gd, ok := d.(*ast.GenDecl); ok {
				gd.Doc = nil
			}
		}
		// sync.Mutex / sync.RWMutex -> simsync.Mutex
		usesSync := false
		ast.Inspect(f, func(n ast.Node) bool {
			if se, ok := n.(*ast.SelectorExpr); ok {
				if id, ok := se.X.(*ast.Ident); ok && id.Name == "sync" {
					if se.Sel.Name == "Mutex" || se.Sel.Name == "RWMutex" {
						id.Name = "simsync"
						se.Sel.Name = "Mutex"
						usedYield = true
					} else {
						usesSync = true
					}
				}
			}
			return true
		})
		if usedYield {
			f.Imports = append(f.Imports, &ast.ImportSpec{Path: &ast.BasicLit{Kind: token.STRING, Value: `"` + simsyncPath + `"`}})
			// add to the first import declaration, or create one
			added := false
			for _, d := range f.Decls {
				if gd, ok := d.(*ast.GenDecl); ok && gd.Tok == token.IMPORT {
					gd.Specs = append(gd.Specs, &ast.ImportSpec{Path: &ast.BasicLit{Kind: token.STRING, Value: `"` + simsyncPath + `"`}})
					if !gd.Lparen.IsValid() {
						gd.Lparen = gd.Pos()
						gd.Rparen = gd.End()
					}
					added = true
					break
				}
			}
			if !added {
				gd := &ast.GenDecl{Tok: token.IMPORT, Specs: []ast.Spec{&ast.ImportSpec{Path: &ast.BasicLit{Kind: token.STRING, Value: `"` + simsyncPath + `"`}}}}
				f.Decls = append([]ast.Decl{gd}, f.Decls...)
			}
		}
		if !usesSync {
			// drop a now unused "sync" import
			for _, d := range f.Decls {
				if gd, ok := d.(*ast.GenDecl); ok && gd.Tok == token.IMPORT {
					var specs []ast.Spec
					for _, sp := range gd.Specs {
						if is, ok := sp.(*ast.ImportSpec); ok && is.Path.Value == `"sync"` {
							continue
						}
						specs = append(specs, sp)
					}
					gd.Specs = specs
				}
			}
		}
		var buf bytes.Buffer
		buf.WriteString("// Code generated by stmtinstr from " + filepath.Join(src, name) + "; DO NOT EDIT.\n\n")
		if err := (&printer.Config{Mode: printer.UseSpaces | printer.TabIndent, Tabwidth: 8}).Fprint(&buf, fset, f); err != nil {
			fmt.Fprintln(os.Stderr, name, err)
			os.Exit(2)
		}
		if os.Getenv("STATSINSTR_DEBUG") != "" {
			os.WriteFile(filepath.Join(dst, name+".raw"), buf.Bytes(), 0o644)
		}
		out, err := format.Source(buf.Bytes())
		if err != nil {
			out = buf.Bytes()
		}
		tmp := filepath.Join(dst, "."+name+".tmp")
		os.WriteFile(tmp, out, 0o644)
		os.Rename(tmp, filepath.Join(dst, name))
		keep[name] = true
	}
	// accessors for the oracle (totals are unexported in the original package)
	extra := `// Code generated by stmtinstr; DO NOT EDIT.

package statsx

// XTotals exposes the totals the oracle compares with its sequential model.
func XTotals() (urls, seeds, pre, arch, post, fin uint64, codes map[string]uint64, meanSum, meanCount uint64) {
	codes = map[string]uint64{}
	for k, r := range globalStats.HTTPReturnCodes.data {
		codes[k] = r.total.Load()
	}
	return globalStats.URLsCrawled.total.Load(), globalStats.SeedsFinished.total.Load(),
		globalStats.PreprocessorRoutines.count, globalStats.ArchiverRoutines.count, globalStats.PostprocessorRoutines.count, globalStats.FinisherRoutines.count,
		codes, globalStats.MeanHTTPResponseTime.sum, globalStats.MeanHTTPResponseTime.count
}

// XReinit makes Init usable once per simulation iteration.
func XReinit() {
	globalStats = nil
	globalPromStats = nil
	prometheus.DefaultRegisterer = prometheus.NewRegistry() // Init registers its collectors again when the exporter is on
	doOnce = *new(syncOnce)
}
`
	_ = extra
	extra2 := strings.Replace(extra, "doOnce = *new(syncOnce)", "doOnce = sync.Once{}", 1)
	extra2 = strings.Replace(extra2, "package statsx\n", "package statsx\n\nimport (\n\t\"sync\"\n\n\t\"github.com/prometheus/client_golang/prometheus\"\n)\n", 1)
	if pkg == "pausex" {
		src := "// Code generated by stmtinstr; DO NOT EDIT.\n\npackage pausex\n\n// XReset gives every simulation iteration a fresh manager.\nfunc XReset() { manager = &pauseManager{} }\n"
		tmp := filepath.Join(dst, ".zz_export.go.tmp")
		os.WriteFile(tmp, []byte(src), 0o644)
		os.Rename(tmp, filepath.Join(dst, "zz_export.go"))
		keep["zz_export.go"] = true
	}
	if pkg == "reactorx" {
		src := "// Code generated by stmtinstr; DO NOT EDIT.\n\npackage reactorx\n\n// XTokensInUse exposes how many tokens are taken (the pool is unexported in the original package).\nfunc XTokensInUse() int {\n\tif globalReactor == nil {\n\t\treturn -1\n\t}\n\treturn len(globalReactor.tokenPool)\n}\n"
		tmp := filepath.Join(dst, ".zz_export.go.tmp")
		os.WriteFile(tmp, []byte(src), 0o644)
		os.Rename(tmp, filepath.Join(dst, "zz_export.go"))
		keep["zz_export.go"] = true
	}
	if pkg == "statsx" {
		tmp := filepath.Join(dst, ".zz_export.go.tmp")
		os.WriteFile(tmp, []byte(extra2), 0o644)
		os.Rename(tmp, filepath.Join(dst, "zz_export.go"))
		keep["zz_export.go"] = true
	}
	// remove stale files
	old, _ := os.ReadDir(dst)
	for _, e := range old {
		if !keep[e.Name()] && strings.HasSuffix(e.Name(), ".go") {
			os.Remove(filepath.Join(dst, e.Name()))
		}
	}
}
