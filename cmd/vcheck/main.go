// vcheck is the orchestrator of the Zeno deterministic-simulation checks.
//
//	vcheck <Cxx> [--tier quick|thorough] [--seed N] [--runs N] [--replay file] [--keep]
//
// Exit 0: property held on everything explored (KNOWN-FINDING lines allowed).
// Exit 1: a "VIOLATION property=<id> replay=<path>" line was printed.
// Exit 2: build failure, harness failure, watchdog.
package main

import (
	"encoding/json"
	"flag"
	"fmt"
	"os"
	"os/exec"
	"path/filepath"
	"runtime"
	"sort"
	"strconv"
	"strings"
	"sync"
	"syscall"
	"time"

	"github.com/internetarchive/Zeno/verifsim/scen"
)

var (
	verifDir string
	buildDir string
	simBin   string
	workRoot string
	keepWork bool
)

func fatal2(format string, a ...any) {
	fmt.Fprintf(os.Stderr, "vcheck: "+format+"\n", a...)
	cleanup()
	os.Exit(2)
}

func cleanup() {
	if workRoot != "" && !keepWork {
		os.RemoveAll(workRoot)
	}
	if simBin != "" && !keepWork {
		os.Remove(simBin)
	}
}

func goEnv() []string {
	env := os.Environ()
	env = append(env, "GOFLAGS=-mod=mod", "GOPROXY=off", "GOSUMDB=off", "GOTOOLCHAIN=local", "CGO_ENABLED=1")
	return env
}

func ensureSetup() {
	if _, err := os.Stat(filepath.Join(buildDir, "overlay.json")); err == nil {
		if _, err := os.Stat(filepath.Join(buildDir, "third_party", "warc", "sim_seam.go")); err == nil {
			return
		}
	}
	cmd := exec.Command("python3", filepath.Join(verifDir, "scripts", "setup.py"))
	cmd.Stdout, cmd.Stderr = os.Stderr, os.Stderr
	if err := cmd.Run(); err != nil {
		fatal2("setup failed: %v", err)
	}
}

func buildSim() {
	ensureSetup()
	// statement-level instrumented copies of small concurrency-critical packages of /repo (component simulations)
	instr := filepath.Join(buildDir, fmt.Sprintf("stmtinstr.%d", os.Getpid()))
	bi := exec.Command("go1.26.8", "build", "-o", instr, "./cmd/stmtinstr")
	bi.Dir = verifDir
	bi.Env = goEnv()
	if out, err := bi.CombinedOutput(); err != nil {
		fatal2("building the instrumenter failed (not a violation):\n%s", out)
	}
	defer os.Remove(instr)
	for _, c := range [][2]string{{"internal/pkg/stats", "statsx"}, {"internal/pkg/reactor", "reactorx"}, {"internal/pkg/controler/pause", "pausex"}, {"internal/pkg/archiver/ratelimiter", "ratelimiterx"}} {
		gen := exec.Command(instr, filepath.Join("/repo", c[0]), filepath.Join(verifDir, "sim", c[1]), c[1])
		gen.Dir = verifDir
		if out, err := gen.CombinedOutput(); err != nil {
			fatal2("instrumenting /repo/%s failed (not a violation):\n%s", c[0], out)
		}
	}
	simBin = filepath.Join(buildDir, fmt.Sprintf("sim.%d.test", os.Getpid()))
	cmd := exec.Command("go1.26.8", "test", "-c", "-tags", "verif", "-vet=off", "-overlay", filepath.Join(buildDir, "overlay.json"), "-o", simBin, "./sim")
	cmd.Dir = verifDir
	cmd.Env = goEnv()
	out, err := cmd.CombinedOutput()
	if err != nil {
		fatal2("build of the simulation binary failed (not a violation):\n%s", out)
	}
}

// childResult is what running one simulation process produced.
type childResult struct {
	rec       *scen.RunRecord
	exit      int
	stderr    string
	crashed   bool   // Go panic / fatal error inside the system under test
	crashSig  string // first line of the panic
	crashHead string
	timedOut  bool
	wall      time.Duration
	dir       string
}

func runChild(in *scen.RunInput, wallLimit time.Duration, gomaxprocs int) *childResult {
	dir := in.JobDir
	os.MkdirAll(dir, 0o755)
	in.Out = filepath.Join(dir, fmt.Sprintf("out.%d.json", in.Phase))
	os.Remove(in.Out)
	inPath := filepath.Join(dir, fmt.Sprintf("in.%d.json", in.Phase))
	b, _ := json.Marshal(in)
	os.WriteFile(inPath, b, 0o644)
	cmd := exec.Command(simBin, "-test.run", "^TestSim$", "-test.timeout", "0")
	cmd.Dir = dir
	if gomaxprocs == 0 {
		gomaxprocs = 2
	}
	cmd.Env = append(os.Environ(), "VERIF_IN="+inPath, "VERIF_WAZERO_CACHE="+filepath.Join(buildDir, "wazero-cache"), "GOMAXPROCS="+strconv.Itoa(gomaxprocs), "GOTRACEBACK=all", "TMPDIR="+dir)
	var errb strings.Builder
	cmd.Stderr = &errb
	cmd.Stdout = &errb
	start := time.Now()
	if err := cmd.Start(); err != nil {
		return &childResult{exit: -1, stderr: err.Error(), dir: dir}
	}
	done := make(chan error, 1)
	go func() { done <- cmd.Wait() }()
	res := &childResult{dir: dir}
	select {
	case err := <-done:
		if err != nil {
			if ee, ok := err.(*exec.ExitError); ok {
				res.exit = ee.ExitCode()
				if ws, ok := ee.Sys().(syscall.WaitStatus); ok && ws.Signaled() {
					res.exit = 128 + int(ws.Signal())
				}
			} else {
				res.exit = -1
			}
		}
	case <-time.After(wallLimit):
		res.timedOut = true
		cmd.Process.Signal(syscall.SIGQUIT)
		select {
		case <-done:
		case <-time.After(5 * time.Second):
			cmd.Process.Kill()
			<-done
		}
		res.exit = -2
	}
	res.wall = time.Since(start)
	res.stderr = errb.String()
	if res.timedOut {
		// a quantum that never reaches quiescence: is some goroutine spinning inside body processing / extraction / normalisation?
		if fr := spinningFrame(res.stderr); fr != "" {
			res.crashed = true
			res.timedOut = false
			res.crashSig = "spin: goroutine still running after the wall-clock limit in " + fr
			res.crashHead = res.crashSig
		}
	}
	if b, err := os.ReadFile(in.Out); err == nil {
		var rec scen.RunRecord
		if json.Unmarshal(b, &rec) == nil {
			res.rec = &rec
		}
	}
	if res.rec == nil || res.exit == 2 {
		// classify a crash of the process
		if i := strings.Index(res.stderr, "panic: "); i >= 0 && !res.timedOut {
			line := res.stderr[i:]
			res.crashHead = line
			if len(res.crashHead) > 2500 {
				res.crashHead = res.crashHead[:2500]
			}
			if j := strings.IndexByte(line, '\n'); j > 0 {
				line = line[:j]
			}
			res.crashed = true
			res.crashSig = line
		} else if i := strings.Index(res.stderr, "fatal error: "); i >= 0 && !res.timedOut {
			line := res.stderr[i:]
			if j := strings.IndexByte(line, '\n'); j > 0 {
				line = line[:j]
			}
			res.crashed = true
			res.crashSig = line
		}
	}
	return res
}

// spinningFrame looks, in a SIGQUIT goroutine dump, for a goroutine in state "running"/"runnable"
// whose stack is inside Zeno's input-processing code (or the parsers it calls).
func spinningFrame(dump string) string {
	marks := []string{"internal/pkg/postprocessor", "internal/pkg/preprocessor", "internal/pkg/archiver.ProcessBody", "pdfcpu", "grafov/m3u8", "goquery", "golang.org/x/net/html", "encoding/xml", "encoding/json", "ada-url", "pkg/models", "mvdan.cc/xurls", "regexp."}
	for _, blk := range strings.Split(dump, "\n\n") {
		first := blk
		if i := strings.IndexByte(blk, '\n'); i > 0 {
			first = blk[:i]
		}
		if !strings.HasPrefix(first, "goroutine ") || !(strings.Contains(first, "[running") || strings.Contains(first, "[runnable")) {
			continue
		}
		if strings.Contains(blk, "verifsim/sim.(*Kernel)") || strings.Contains(blk, "os/signal") || strings.Contains(blk, "runtime.sigdump") {
			continue
		}
		for _, m := range marks {
			if i := strings.Index(blk, m); i >= 0 {
				line := blk[i:]
				if j := strings.IndexByte(line, '\n'); j > 0 {
					line = line[:j]
				}
				return line
			}
		}
	}
	return ""
}

func mix(a, b uint64) uint64 {
	x := a*0x9e3779b97f4a7c15 + b + 0x632be59bd9b4e019
	x = (x ^ (x >> 30)) * 0xbf58476d1ce4e5b9
	x = (x ^ (x >> 27)) * 0x94d049bb133111eb
	return x ^ (x >> 31)
}

// Case is one planned simulation run.
type Case struct {
	Idx      int
	Seed     uint64
	Scenario *scen.Scenario
	Label    string
	Restart  *scen.Scenario // second phase (C04)
}

type found struct {
	c   *Case
	v   scen.Violation
	res *childResult
}

func parallel(n, workers int, f func(i int)) {
	var wg sync.WaitGroup
	ch := make(chan int)
	for w := 0; w < workers; w++ {
		wg.Add(1)
		go func() {
			defer wg.Done()
			for i := range ch {
				f(i)
			}
		}()
	}
	for i := 0; i < n; i++ {
		ch <- i
	}
	close(ch)
	wg.Wait()
}

func main() {
	if len(os.Args) < 2 {
		fmt.Fprintln(os.Stderr, "usage: vcheck <Cxx|selftest> [--tier quick|thorough] [--seed N] [--runs N] [--replay file] [--keep]")
		os.Exit(2)
	}
	prop := os.Args[1]
	fs := flag.NewFlagSet("vcheck", flag.ExitOnError)
	tier := fs.String("tier", os.Getenv("VERIF_TIER"), "quick|thorough")
	seedStr := fs.String("seed", os.Getenv("VERIF_SEED"), "seed")
	runs := fs.Int("runs", 0, "override the number of runs")
	replay := fs.String("replay", "", "replay file")
	fs.BoolVar(&keepWork, "keep", false, "keep scratch directories")
	workers := fs.Int("workers", 0, "parallel children")
	fs.Parse(os.Args[2:])
	if *tier == "" {
		*tier = "quick"
	}
	var seed uint64 = 1
	if *seedStr != "" {
		if v, err := strconv.ParseUint(*seedStr, 10, 64); err == nil {
			seed = v
		} else if v, err := strconv.ParseInt(*seedStr, 10, 64); err == nil {
			seed = uint64(v)
		}
	}
	exe, _ := os.Executable()
	verifDir = filepath.Dir(filepath.Dir(exe))
	if _, err := os.Stat(filepath.Join(verifDir, "properties.jsonl")); err != nil {
		verifDir, _ = os.Getwd()
	}
	buildDir = filepath.Join(verifDir, ".build")
	if *workers == 0 {
		*workers = runtime.NumCPU()
	}
	tmp := os.Getenv("VERIF_TMP")
	if tmp == "" {
		tmp = os.TempDir()
	}
	var err error
	workRoot, err = os.MkdirTemp(tmp, "vsim-"+prop+"-")
	if err != nil {
		fatal2("mkdtemp: %v", err)
	}
	fmt.Printf("VERIF_SEED=%d property=%s tier=%s\n", seed, prop, *tier)
	buildSim()
	var code int
	switch {
	case *replay != "" && prop != "selfdiff" && prop != "plandiff":
		code = doReplay(prop, *replay)
	case prop == "warm":
		// build + one run, to warm the Go build cache and the wazero compilation cache
		c := props["C01"].plan("quick", seed, 1)[0]
		res, _ := runCase(c, false, nil, "")
		if res.rec == nil {
			fatal2("warm-up run produced no record (exit %d):\n%s", res.exit, tailOf(res.stderr, 3000))
		}
		fmt.Println("warm: ok", res.rec.EndReason)
		code = 0
	case prop == "selfdiff":
		// vcheck selfdiff --runs <case index> --replay <property>
		code = doSelfDiff(*replay, *runs, seed)
	case prop == "plandiff":
		// vcheck plandiff --runs <case index> --replay <property>: plans the case several times and prints where the scenarios differ
		code = doPlanDiff(*replay, *runs, seed)
	case prop == "selftest":
		code = doSelftest(*tier, seed, *workers)
	default:
		code = doCheck(prop, *tier, seed, *runs, *workers)
	}
	cleanup()
	os.Exit(code)
}

func sortedKeys(m map[string]int) []string {
	var ks []string
	for k := range m {
		ks = append(ks, k)
	}
	sort.Strings(ks)
	return ks
}
