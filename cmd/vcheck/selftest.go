package main

import (
	"crypto/sha256"
	"encoding/hex"
	"encoding/json"
	"fmt"
	"strings"
	"sync"

	"github.com/internetarchive/Zeno/verifsim/scen"
)

// doSelftest: determinism self-test. Every seed is run in several fresh
// processes at different GOMAXPROCS; event-log hashes must agree.
func doSelftest(tier string, seed uint64, workers int) int {
	nSeeds, reps := 12, 3
	if tier == "thorough" {
		nSeeds, reps = 40, 4
	}
	procs := []int{1, 4, 16, 2}
	type job struct {
		prop string
		i, r int
	}
	var jobs []job
	names := []string{}
	for name := range props {
		names = append(names, name)
	}
	for _, name := range names {
		for i := 0; i < nSeeds; i++ {
			for r := 0; r < reps; r++ {
				jobs = append(jobs, job{name, i, r})
			}
		}
	}
	var mu sync.Mutex
	hashes := map[string]map[string]int{}
	plans := map[string]map[string]int{} // the planned scenario itself must be a pure function of (property, seed, index)
	planJSON := map[string][]byte{}
	infra := 0
	parallel(len(jobs), workers, func(j int) {
		jb := jobs[j]
		p := props[jb.prop]
		cases := p.plan("quick", seed, jb.i+1)
		c := cases[jb.i]
		if c.Scenario.Extra != nil && c.Scenario.Extra["wall_limit_s"] != "" {
			return // the pinned hang of a recorded finding: it ends at the wall-clock limit and leaves no record to compare
		}
		c.Idx = j
		dirCase := &Case{Idx: j, Seed: c.Seed, Scenario: c.Scenario, Label: c.Label}
		in := &scen.RunInput{Property: jb.prop, Seed: c.Seed, Scenario: dirCase.Scenario, JobDir: fmt.Sprintf("%s/st-%d", workRoot, j)}
		res := runChild(in, wallLimitFor(c.Scenario), procs[jb.r%len(procs)])
		key := fmt.Sprintf("%s/%d", jb.prop, jb.i)
		scJSON, _ := json.Marshal(c.Scenario)
		scHash := sha256.Sum256(scJSON)
		mu.Lock()
		if plans[key] == nil {
			plans[key] = map[string]int{}
		}
		plans[key][hex.EncodeToString(scHash[:8])]++
		if prev, ok := planJSON[key]; !ok {
			planJSON[key] = scJSON
		} else if string(prev) != string(scJSON) {
			a, b := string(prev), string(scJSON)
			i := 0
			for i < len(a) && i < len(b) && a[i] == b[i] {
				i++
			}
			fmt.Printf("PLAN-DIFF %s at byte %d:\n  A ...%s\n  B ...%s\n", key, i, a[max(0, i-200):min(len(a), i+200)], b[max(0, i-200):min(len(b), i+200)])
		}
		if hashes[key] == nil {
			hashes[key] = map[string]int{}
		}
		if res.rec != nil {
			hashes[key][res.rec.Hash+" "+res.rec.EndReason]++
		} else if !(hasKill(c.Scenario) && res.exit == 137) {
			infra++
			hashes[key][fmt.Sprintf("no-record exit=%d", res.exit)]++
		}
		mu.Unlock()
	})
	bad := 0
	for key, m := range plans {
		if len(m) > 1 {
			bad++
			fmt.Printf("PLAN-DIVERGENCE %s: %v\n", key, m)
		}
	}
	for key, m := range hashes {
		if len(m) > 1 {
			bad++
			fmt.Printf("DIVERGENCE %s: %v\n", key, m)
		}
	}
	fmt.Printf("selftest: %d scenario/seed pairs x %d processes, %d divergent, %d without record\n", len(hashes), reps, bad, infra)
	if bad > 0 || infra > 0 {
		return 2
	}
	return 0
}

// doSelfDiff runs one planned case several times and prints the first event at which two runs differ.
func doSelfDiff(prop string, idx int, seed uint64) int {
	p := props[prop]
	cases := p.plan("quick", seed, idx+1)
	c := cases[idx]
	procList := []int{1, 4, 16, 2, 8, 16, 1, 4, 16, 3, 16, 1}
	n := 3 * len(procList)
	all := make([][]*scen.Event, n)
	var mu sync.Mutex
	parallel(n, 16, func(r int) {
		procs := procList[r%len(procList)]
		in := &scen.RunInput{Property: prop, Seed: c.Seed, Scenario: c.Scenario, JobDir: fmt.Sprintf("%s/sd-%d", workRoot, r), KeepLog: true}
		res := runChild(in, wallLimitFor(c.Scenario), procs)
		mu.Lock()
		defer mu.Unlock()
		if res.rec == nil {
			fmt.Println("no record", res.exit)
			return
		}
		fmt.Println("run", r, "GOMAXPROCS", procs, res.rec.Hash[:16], res.rec.EndReason, len(res.rec.Log))
		all[r] = res.rec.Log
	})
	var logs [][]*scen.Event
	for _, l := range all {
		if l != nil {
			logs = append(logs, l)
		}
	}
	for r := 1; r < len(logs); r++ {
		a, b := logs[0], logs[r]
		for i := 0; i < len(a) && i < len(b); i++ {
			ea, eb := a[i], b[i]
			if ea.Step != eb.Step || ea.Actor != eb.Actor || ea.Point != eb.Point || fmt.Sprint(ea.Args) != fmt.Sprint(eb.Args) || ea.T != eb.T {
				fmt.Printf("first difference run0 vs run%d at event %d:\n", r, i)
				for j := max(0, i-6); j <= i+3 && j < len(a) && j < len(b); j++ {
					fmt.Printf("  A %d %dms %s %s %v\n  B %d %dms %s %s %v\n", a[j].Step, a[j].T/1000000, a[j].Actor, a[j].Point, a[j].Args, b[j].Step, b[j].T/1000000, b[j].Actor, b[j].Point, b[j].Args)
				}
				break
			}
		}
	}
	return 0
}

// doPlanDiff plans one case several times and prints the first differing lines of the scenario JSON.
func doPlanDiff(prop string, idx int, seed uint64) int {
	p := props[prop]
	var first []byte
	for r := 0; r < 8; r++ {
		cases := p.plan("quick", seed, idx+1)
		b, _ := json.MarshalIndent(cases[idx].Scenario, "", " ")
		if first == nil {
			first = b
			continue
		}
		if string(b) == string(first) {
			fmt.Println("plan", r, "identical")
			continue
		}
		la, lb := strings.Split(string(first), "\n"), strings.Split(string(b), "\n")
		shown := 0
		for i := 0; i < len(la) && i < len(lb) && shown < 6; i++ {
			if la[i] != lb[i] {
				fmt.Printf("plan %d line %d:\n  A %s\n  B %s\n", r, i, la[i], lb[i])
				shown++
			}
		}
	}
	return 0
}
