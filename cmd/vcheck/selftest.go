package main

import (
	"fmt"
	"sync"

	"github.com/internetarchive/Zeno/verifsim/scen"
)

// doSelftest: determinism self-test. Every seed is run in several fresh
// processes at different GOMAXPROCS; event-log hashes must agree.
func doSelftest(tier string, seed uint64, workers int) int {
	nSeeds, reps := 12, 3
	if tier == "thorough" {
		nSeeds, reps = 40, 4
	}
	procs := []int{1, 4, 16, 2}
	type job struct {
		prop string
		i, r int
	}
	var jobs []job
	names := []string{}
	for name := range props {
		names = append(names, name)
	}
	for _, name := range names {
		for i := 0; i < nSeeds; i++ {
			for r := 0; r < reps; r++ {
				jobs = append(jobs, job{name, i, r})
			}
		}
	}
	var mu sync.Mutex
	hashes := map[string]map[string]int{}
	infra := 0
	parallel(len(jobs), workers, func(j int) {
		jb := jobs[j]
		p := props[jb.prop]
		cases := p.plan("quick", seed, jb.i+1)
		c := cases[jb.i]
		c.Idx = j
		dirCase := &Case{Idx: j, Seed: c.Seed, Scenario: c.Scenario, Label: c.Label}
		in := &scen.RunInput{Property: jb.prop, Seed: c.Seed, Scenario: dirCase.Scenario, JobDir: fmt.Sprintf("%s/st-%d", workRoot, j)}
		res := runChild(in, wallLimitFor(c.Scenario), procs[jb.r%len(procs)])
		key := fmt.Sprintf("%s/%d", jb.prop, jb.i)
		mu.Lock()
		if hashes[key] == nil {
			hashes[key] = map[string]int{}
		}
		if res.rec != nil {
			hashes[key][res.rec.Hash+" "+res.rec.EndReason]++
		} else if !(hasKill(c.Scenario) && res.exit == 137) {
			infra++
			hashes[key][fmt.Sprintf("no-record exit=%d", res.exit)]++
		}
		mu.Unlock()
	})
	bad := 0
	for key, m := range hashes {
		if len(m) > 1 {
			bad++
			fmt.Printf("DIVERGENCE %s: %v\n", key, m)
		}
	}
	fmt.Printf("selftest: %d scenario/seed pairs x %d processes, %d divergent, %d without record\n", len(hashes), reps, bad, infra)
	if bad > 0 || infra > 0 {
		return 2
	}
	return 0
}

// doSelfDiff runs one planned case several times and prints the first event at which two runs differ.
func doSelfDiff(prop string, idx int, seed uint64) int {
	p := props[prop]
	cases := p.plan("quick", seed, idx+1)
	c := cases[idx]
	var logs [][]*scen.Event
	for r, procs := range []int{1, 4, 16, 2, 8, 16, 1, 4, 16, 3, 16, 1} {
		in := &scen.RunInput{Property: prop, Seed: c.Seed, Scenario: c.Scenario, JobDir: fmt.Sprintf("%s/sd-%d", workRoot, r), KeepLog: true}
		res := runChild(in, wallLimitFor(c.Scenario), procs)
		if res.rec == nil {
			fmt.Println("no record", res.exit)
			continue
		}
		fmt.Println("run", r, "GOMAXPROCS", procs, res.rec.Hash[:16], res.rec.EndReason, len(res.rec.Log))
		logs = append(logs, res.rec.Log)
	}
	for r := 1; r < len(logs); r++ {
		a, b := logs[0], logs[r]
		for i := 0; i < len(a) && i < len(b); i++ {
			ea, eb := a[i], b[i]
			if ea.Step != eb.Step || ea.Actor != eb.Actor || ea.Point != eb.Point || fmt.Sprint(ea.Args) != fmt.Sprint(eb.Args) || ea.T != eb.T {
				fmt.Printf("first difference run0 vs run%d at event %d:\n", r, i)
				for j := max(0, i-6); j <= i+3 && j < len(a) && j < len(b); j++ {
					fmt.Printf("  A %d %dms %s %s %v\n  B %d %dms %s %s %v\n", a[j].Step, a[j].T/1000000, a[j].Actor, a[j].Point, a[j].Args, b[j].Step, b[j].T/1000000, b[j].Actor, b[j].Point, b[j].Args)
				}
				break
			}
		}
	}
	return 0
}
