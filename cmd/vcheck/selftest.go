package main

import (
	"fmt"
	"sync"

	"github.com/internetarchive/Zeno/verifsim/scen"
)

// doSelftest: determinism self-test. Every seed is run in several fresh
// processes at different GOMAXPROCS; event-log hashes must agree.
func doSelftest(tier string, seed uint64, workers int) int {
	nSeeds, reps := 12, 3
	if tier == "thorough" {
		nSeeds, reps = 40, 4
	}
	procs := []int{1, 4, 16, 2}
	type job struct {
		prop string
		i, r int
	}
	var jobs []job
	names := []string{}
	for name := range props {
		names = append(names, name)
	}
	for _, name := range names {
		for i := 0; i < nSeeds; i++ {
			for r := 0; r < reps; r++ {
				jobs = append(jobs, job{name, i, r})
			}
		}
	}
	var mu sync.Mutex
	hashes := map[string]map[string]int{}
	infra := 0
	parallel(len(jobs), workers, func(j int) {
		jb := jobs[j]
		p := props[jb.prop]
		cases := p.plan("quick", seed, jb.i+1)
		c := cases[jb.i]
		c.Idx = j
		dirCase := &Case{Idx: j, Seed: c.Seed, Scenario: c.Scenario, Label: c.Label}
		in := &scen.RunInput{Property: jb.prop, Seed: c.Seed, Scenario: dirCase.Scenario, JobDir: fmt.Sprintf("%s/st-%d", workRoot, j)}
		res := runChild(in, wallLimitFor(c.Scenario), procs[jb.r%len(procs)])
		key := fmt.Sprintf("%s/%d", jb.prop, jb.i)
		mu.Lock()
		if hashes[key] == nil {
			hashes[key] = map[string]int{}
		}
		if res.rec != nil {
			hashes[key][res.rec.Hash+" "+res.rec.EndReason]++
		} else if !(hasKill(c.Scenario) && res.exit == 137) {
			infra++
			hashes[key][fmt.Sprintf("no-record exit=%d", res.exit)]++
		}
		mu.Unlock()
	})
	bad := 0
	for key, m := range hashes {
		if len(m) > 1 {
			bad++
			fmt.Printf("DIVERGENCE %s: %v\n", key, m)
		}
	}
	fmt.Printf("selftest: %d scenario/seed pairs x %d processes, %d divergent, %d without record\n", len(hashes), reps, bad, infra)
	if bad > 0 || infra > 0 {
		return 2
	}
	return 0
}
