package main

import (
	"encoding/json"
	"fmt"
	"os"
	"sort"
	"strings"
	"sync"
	"sync/atomic"

	"github.com/internetarchive/Zeno/verifsim/scen"
)

var planSeq atomic.Int64

// uniqSub gives every profiling run its own scratch directory (plans can be computed concurrently, e.g. by the self-test).
func uniqSub(prefix string) string { return fmt.Sprintf("%s%d", prefix, planSeq.Add(1)) }

func pointCounts(res *childResult) map[string]int {
	out := map[string]int{}
	if res == nil || res.rec == nil || res.rec.Summary == nil {
		return out
	}
	if m, ok := res.rec.Summary["point_counts"].(map[string]any); ok {
		for k, v := range m {
			if f, ok := v.(float64); ok {
				out[k] = int(f)
			}
		}
	}
	return out
}

func occurrences(c int, tier string) []int {
	if c <= 0 {
		return nil
	}
	if tier == "thorough" {
		var out []int
		for i := 1; i <= c && i <= 40; i++ {
			out = append(out, i)
		}
		if c > 40 {
			out = append(out, c)
		}
		return out
	}
	set := map[int]bool{1: true, (c + 1) / 2: true, c: true}
	var out []int
	for k := range set {
		out = append(out, k)
	}
	sort.Ints(out)
	return out
}

var idlePoints = map[string]bool{"pause.unsubscribe": true, "reactor.frozen": true, "advance": true, "release": true, "lq.fetch.get": true, "disk.reading": true, "disk.verdict": true, "pause.subscribe": true}

// stopMatrix applies one point of C03's configuration matrix.
func stopMatrix(sc *scen.Scenario, t *scen.Tape, i int) string {
	c := &sc.Cfg
	c.Proxy = t.Draw(2) == 1
	c.AsyncWARC = t.Draw(3) == 0
	c.RateLimit = t.Draw(2) == 1
	if c.RateLimit {
		c.RLCapacity, c.RLRate, c.RLCleanupSec = float64([]int{1, 3, 150}[t.Draw(3)]), float64([]int{1, 5, 50}[t.Draw(3)]), 300
	}
	c.Workers = []int{1, 2, 4}[t.Draw(3)]
	c.PoolSize = []int{1, 3}[t.Draw(2)]
	c.Seencheck = t.Draw(2) == 1
	if i < 4 {
		// the first profiles of every batch cover each value of the two-valued settings at least once (proxy, async WARC, rate limiter, seencheck)
		row := [][4]bool{{false, false, false, true}, {true, true, true, false}, {true, false, true, true}, {false, true, false, false}}[i]
		c.Proxy, c.AsyncWARC, c.RateLimit, c.Seencheck = row[0], row[1], row[2], row[3]
		if c.RateLimit && c.RLCapacity == 0 {
			c.RLCapacity, c.RLRate, c.RLCleanupSec = 3, 5, 300
		}
	}
	if c.AsyncWARC {
		c.WARCQueueSize = []int{-1, 1, 4}[t.Draw(3)]
	}
	return fmt.Sprintf("proxy=%v async=%v rl=%v w=%d pool=%d seen=%v", c.Proxy, c.AsyncWARC, c.RateLimit, c.Workers, c.PoolSize, c.Seencheck)
}

func planC03(p *propDef, tier string, seed uint64, n int) []*Case {
	nScen := 4
	if tier == "thorough" {
		nScen = 54
	}
	if n > 0 {
		nScen = n
	}
	type prof struct {
		sc    *scen.Scenario
		seed  uint64
		label string
		pc    map[string]int
	}
	profs := make([]*prof, nScen)
	var mu sync.Mutex
	parallel(nScen, 16, func(i int) {
		s := mix(seed, uint64(1000+i))
		t := scen.NewTape(s ^ 0xc03)
		sc := scen.GenCrawl(t, scen.CrawlOpts{Prop: "C03", MinSeeds: 2, MaxSeeds: 4, Small: i%2 == 0, NoBadSeeds: true, Faults: i%2 == 1, RateLimit: -1, Hops: true, Rotation: i%4 == 3})
		if i%3 != 1 && sc.Cfg.MaxHops == 0 {
			sc.Cfg.MaxHops = 1 // outlinks are forwarded between stages in most scenarios
		}
		if i%2 == 1 {
			// make sure some response of this site is on the discard list (the WARC library reports every rejected response as an
			// error: one of them must be in flight when the stop comes)
			var sts []int
			for _, res := range sc.Site {
				if len(res.Resp) > 0 && res.Resp[0].Status >= 300 && res.Resp[0].Status != 429 {
					sts = append(sts, res.Resp[0].Status)
				}
			}
			sort.Ints(sts)
			if len(sts) > 0 {
				sc.Cfg.DiscardStatus = append(sc.Cfg.DiscardStatus, sts[0])
			}
		}
		label := stopMatrix(sc, t, i)
		sc.Sched.MaxSimSec = 6 * 3600
		c := &Case{Idx: 900000 + i, Seed: s, Scenario: sc, Label: "profile"}
		res, _ := runCase(c, false, nil, uniqSub("p"))
		for try := 0; try < 3 && (res == nil || res.rec == nil); try++ {
			// a profiling run lost on an overloaded machine would silently shrink the plan: repeat it
			fmt.Fprintf(os.Stderr, "vcheck: profiling run %d left no record (exit %d), repeating\n", i, res.exit)
			res, _ = runCase(c, false, nil, uniqSub("p"))
		}
		mu.Lock()
		profs[i] = &prof{sc: sc, seed: s, label: label, pc: pointCounts(res)}
		mu.Unlock()
	})
	var cases []*Case
	add := func(pr *prof, sd uint64, label string, ctl []scen.CtlAction, disk []scen.DiskReading) {
		sc := cloneScenario(pr.sc)
		sc.Ctl = ctl
		sc.Disk = disk
		cases = append(cases, &Case{Idx: len(cases), Seed: sd, Scenario: sc, Label: label + " | " + pr.label})
	}
	for i, pr := range profs {
		var pts []string
		for pt := range pr.pc {
			if !idlePoints[pt] && !strings.HasPrefix(pt, "stop.") && !strings.HasPrefix(pt, "ctl.") && !strings.Contains(pt, ".stop.") && !strings.HasSuffix(pt, ".exit") {
				pts = append(pts, pt)
			}
		}
		sort.Strings(pts)
		for _, pt := range pts {
			for _, nth := range occurrences(pr.pc[pt], tier) {
				add(pr, pr.seed, fmt.Sprintf("stop@%s#%d", pt, nth), []scen.CtlAction{{Name: "stop", Kind: "stop", Trigger: scen.Trigger{Point: pt, Nth: nth}}}, nil)
			}
		}
		// stop while a fetch is in flight whose response the WARC library will reject or find broken (a status on the discard
		// list, a reset or short body): the library then reports an error while the archiver is already shutting down
		{
			var keys []string
			for key, res := range pr.sc.Site {
				if len(res.Resp) == 0 {
					continue
				}
				rp := res.Resp[0]
				bad := rp.Fault != ""
				for _, st := range pr.sc.Cfg.DiscardStatus {
					if rp.Status == st {
						bad = true
					}
				}
				if bad && res.Expect != scen.Never {
					keys = append(keys, key)
				}
			}
			sort.Strings(keys)
			if os.Getenv("VCHECK_DEBUG") != "" {
				st := map[string]int{}
				for _, res := range pr.sc.Site {
					if len(res.Resp) > 0 {
						st[fmt.Sprintf("%d/%s", res.Resp[0].Status, res.Resp[0].Fault)]++
					}
				}
				fmt.Fprintf(os.Stderr, "profile %d: %d resources with a rejected or broken first response; discard=%v first responses=%v\n", i, len(keys), pr.sc.Cfg.DiscardStatus, st)
			}
			for j, key := range keys {
				if j >= 6 {
					break
				}
				add(pr, mix(pr.seed, uint64(600+j)), "stop@origin.request of "+key+" (rejected or broken response in flight)", []scen.CtlAction{{Name: "stop", Kind: "stop", Trigger: scen.Trigger{Point: "origin.request", Actor: "origin:" + key + "#", Nth: 1}}}, nil)
			}
		}
		// stop before anything happened, and after the drain
		add(pr, pr.seed, "stop@start", []scen.CtlAction{{Name: "stop", Kind: "stop", Trigger: scen.Trigger{AtStep: 1}}}, nil)
		add(pr, mix(pr.seed, 7), "stop@idle", nil, nil)
		// operator pause, then stop while paused / after resume
		pausePts := []string{"pre.recv", "arch.recv", "fetch.attempt", "fetch.feedback.wait", "post.recv", "post.outlink", "fin.produce", "fin.recv", "origin.request", "lq.fin.recv"}
		for j, pt := range pausePts {
			if pr.pc[pt] == 0 {
				continue
			}
			nth := 1 + (i+j)%pr.pc[pt]
			sd := mix(pr.seed, uint64(100+j))
			add(pr, sd, fmt.Sprintf("pause@%s#%d,stop-while-paused", pt, nth), []scen.CtlAction{
				{Name: "pause", Kind: "pause", Trigger: scen.Trigger{Point: pt, Nth: nth}, Arg: "operator"},
				{Name: "stop", Kind: "stop", Trigger: scen.Trigger{After: "pause"}},
			}, nil)
			add(pr, sd, fmt.Sprintf("pause@%s#%d,resume,stop", pt, nth), []scen.CtlAction{
				{Name: "pause", Kind: "pause", Trigger: scen.Trigger{Point: pt, Nth: nth}, Arg: "operator"},
				{Name: "resume", Kind: "resume", Trigger: scen.Trigger{After: "pause"}},
				{Name: "stop", Kind: "stop", Trigger: scen.Trigger{After: "resume"}},
			}, nil)
			add(pr, sd, fmt.Sprintf("pause@%s#%d,stop-during-resume", pt, nth), []scen.CtlAction{
				{Name: "pause", Kind: "pause", Trigger: scen.Trigger{Point: pt, Nth: nth}, Arg: "operator"},
				{Name: "resume", Kind: "resume", Trigger: scen.Trigger{After: "pause"}},
				{Name: "stop", Kind: "stop", Trigger: scen.Trigger{Point: "pause.resume.enter", Nth: 1}},
			}, nil)
		}
		// pause, then resume and pause again at once (before the released workers have run), resume, drain
		for j, pt := range []string{"fin.recv", "post.recv", "pre.recv", "arch.recv"} {
			if pr.pc[pt] == 0 {
				continue
			}
			nth := 1 + (i+2*j)%pr.pc[pt]
			add(pr, mix(pr.seed, uint64(400+j)), fmt.Sprintf("pause@%s#%d,resume+pause,resume", pt, nth), []scen.CtlAction{
				{Name: "pause", Kind: "pause", Trigger: scen.Trigger{Point: pt, Nth: nth}, Arg: "operator"},
				{Name: "flip", Kind: "resume-pause", Trigger: scen.Trigger{After: "pause"}, Arg: "operator"},
				{Name: "resume", Kind: "resume", Trigger: scen.Trigger{After: "flip"}},
			}, nil)
			if j%2 == 0 {
				sc := cases[len(cases)-1].Scenario
				sc.Sched.Slow, sc.Sched.SlowDiv = strings.SplitN(pt, ".", 2)[0]+".", 64 // the stage whose workers lag behind
			}
		}
		// the queue is crawl HQ and HQ is down when the stop arrives (its answers are 500 for ever), or merely slow
		if i%2 == 0 {
			addHQ := func(sd uint64, label string, faults map[string][]string, ctl []scen.CtlAction) {
				add(pr, sd, label, ctl, nil)
				sc := cases[len(cases)-1].Scenario
				sc.Cfg.UseHQ = true
				sc.Cfg.HQBatchSize = 1 + i%3
				sc.HQ = &scen.HQPlan{Faults: faults}
			}
			addHQ(mix(pr.seed, 501), "crawl-hq,stop@idle", map[string][]string{}, nil)
			addHQ(mix(pr.seed, 502), "crawl-hq delete fails for ever,stop@hq.fin.deleted#2", map[string][]string{"delete": {"500*"}}, []scen.CtlAction{{Name: "stop", Kind: "stop", Trigger: scen.Trigger{Point: "hq.fin.deleted", Nth: 2}}})
			addHQ(mix(pr.seed, 503), "crawl-hq add fails for ever,stop@hq.prod.sent#2", map[string][]string{"add": {"", "500*"}}, []scen.CtlAction{{Name: "stop", Kind: "stop", Trigger: scen.Trigger{Point: "hq.prod.sent", Nth: 2}}})
			addHQ(mix(pr.seed, 504), "crawl-hq times out for ever,stop@hq.fin.deleted#1", map[string][]string{"delete": {"timeout*"}, "add": {"timeout*"}}, []scen.CtlAction{{Name: "stop", Kind: "stop", Trigger: scen.Trigger{Point: "hq.fin.deleted", Nth: 1}}})
			for j, pt := range []string{"hq.sender.recv", "hq.fin.recv", "hq.prod.recv", "fetch.attempt", "post.recv"} {
				addHQ(mix(pr.seed, uint64(510+j)), fmt.Sprintf("crawl-hq,stop@%s#%d", pt, 1+j%2), map[string][]string{"delete": {"500"}, "add": {"reset-before"}}, []scen.CtlAction{{Name: "stop", Kind: "stop", Trigger: scen.Trigger{Point: pt, Nth: 1 + j%2}}})
			}
		}
		// asynchronous WARC writing with a writer that lags: the WARC-queue watchdog pauses the pipeline and resumes it later
		if pr.sc.Cfg.AsyncWARC {
			for j, div := range []int{8, 64} {
				add(pr, mix(pr.seed, uint64(450+j)), fmt.Sprintf("warc-queue-watchdog-pause (writer 1/%d),stop@idle", div), nil, nil)
				sc := cases[len(cases)-1].Scenario
				sc.Cfg.WARCQueueSize = 1
				sc.Sched.Slow, sc.Sched.SlowDiv = "warc.write", div
				add(pr, mix(pr.seed, uint64(460+j)), fmt.Sprintf("warc-queue-watchdog-pause (writer 1/%d),stop-while-paused", div), []scen.CtlAction{{Name: "stop", Kind: "stop", Trigger: scen.Trigger{Point: "pause.pause.broadcast", Nth: 1}}}, nil)
				sc = cases[len(cases)-1].Scenario
				sc.Cfg.WARCQueueSize = 1
				sc.Sched.Slow, sc.Sched.SlowDiv = "warc.write", div
			}
		}
		// paused by the disk watchdog (low space from the 2nd tick on), stop while paused / after space returns
		ok := scen.DiskReading{Blocks: 1 << 28, Bavail: 1 << 27, Bsize: 4096}
		low := scen.DiskReading{Blocks: 1 << 28, Bavail: 1 << 10, Bsize: 4096}
		add(pr, mix(pr.seed, 201), "disk-low,stop-while-paused", []scen.CtlAction{{Name: "stop", Kind: "stop", Trigger: scen.Trigger{Point: "pause.pause.broadcast", Nth: 1}}}, []scen.DiskReading{ok, ok, low})
		add(pr, mix(pr.seed, 202), "disk-low,recovers,stop", []scen.CtlAction{{Name: "stop", Kind: "stop", Trigger: scen.Trigger{Point: "pause.resume.done", Nth: 1}}}, []scen.DiskReading{ok, ok, low, low, ok})
		// the local queue's database fails (cooperative fault points in lq.Get / lq.Delete): for ever, or a few times
		addLQ := func(sd uint64, label string, faults map[string][]string, ctl []scen.CtlAction) {
			add(pr, sd, label, ctl, nil)
			cases[len(cases)-1].Scenario.LQFaults = faults
		}
		for j, nth := range []int{1, 3} {
			addLQ(mix(pr.seed, uint64(301+j)), fmt.Sprintf("lq-delete-fails-forever,stop@lq.fin.deleted#%d", nth), map[string][]string{"delete": {"err*"}}, []scen.CtlAction{{Name: "stop", Kind: "stop", Trigger: scen.Trigger{Point: "lq.fin.deleted", Nth: nth}}})
		}
		addLQ(mix(pr.seed, 303), "lq-delete-fails-forever,stop@lq.db.fault#2", map[string][]string{"delete": {"", "err*"}}, []scen.CtlAction{{Name: "stop", Kind: "stop", Trigger: scen.Trigger{Point: "lq.db.fault", Nth: 2}}})
		addLQ(mix(pr.seed, 304), "lq-delete-fails-twice,stop@idle", map[string][]string{"delete": {"err", "", "err"}}, nil)
		addLQ(mix(pr.seed, 305), "lq-get-fails-forever,stop@lq.fetch.got#3", map[string][]string{"get": {"", "err*"}}, []scen.CtlAction{{Name: "stop", Kind: "stop", Trigger: scen.Trigger{Point: "lq.fetch.got", Nth: 3}}})
		addLQ(mix(pr.seed, 306), "lq-get-fails-sometimes,stop@idle", map[string][]string{"get": {"err", "", "err", "err"}}, nil)
		add(pr, mix(pr.seed, 203), "disk-low,stop-during-resume", []scen.CtlAction{{Name: "stop", Kind: "stop", Trigger: scen.Trigger{Point: "pause.resume.enter", Nth: 1}}}, []scen.DiskReading{ok, ok, low, low, ok})
	}
	return cases
}

func init() {
	props["C03"] = &propDef{level: "fault_enumeration", assumptions: e2eAssumptions, components: e2eComponents, quickRuns: 4, thorRuns: 54,
		rule:   "per sampled (scenario, configuration-matrix point): one profiling run records the pipeline's progress events; then one run per (event kind, occurrence) issues controler.Stop() at that event (quick: first/middle/last occurrence; thorough: every occurrence up to 40), plus stop at start, at idle, while paused by an operator, after resume, during resume and while paused by the disk watchdog; distinct = distinct event-log hash; non-trivial = >= 2 HTTP exchanges or > 30 scheduler decisions or a fault fired",
		planFn: planC03,
	}
}

// ---------------------------------------------------------------- C04

var killFamilies = []string{"lq.fetch.", "lq.sender.", "reactor.insert.", "reactor.feedback.", "reactor.finish.", "fin.", "lq.fin.", "lq.prod.", "fetch.feedback.", "fetch.body", "fetch.response", "fetch.archived", "arch.sent", "arch.joined", "post.", "pre.seencheck.", "seen.recorded", "origin.done"}

func inFamilies(pt string) bool {
	for _, f := range killFamilies {
		if strings.HasPrefix(pt, f) {
			return true
		}
	}
	return false
}

// restartOf builds the fault-free second-phase scenario: same site and configuration, run to quiescence, graceful stop.
func restartOf(sc *scen.Scenario) *scen.Scenario {
	r := cloneScenario(sc)
	r.Ctl = nil
	r.Disk = nil
	r.Queue = nil
	r.StopAtIdle = true
	r.Extra = map[string]string{}
	r.Hosts = map[string]*scen.HostPlan{}
	for _, res := range r.Site {
		var keep []scen.Response
		for _, rp := range res.Resp {
			if rp.Fault == "" {
				keep = append(keep, rp)
			}
		}
		if len(keep) == 0 {
			keep = []scen.Response{scen.Status(404)}
		}
		res.Resp = keep
	}
	return r
}

func planC04(p *propDef, tier string, seed uint64, n int) []*Case {
	nScen := 3
	if tier == "thorough" {
		nScen = 45
	}
	if n > 0 {
		nScen = n
	}
	type prof struct {
		sc     *scen.Scenario
		seed   uint64
		pc     map[string]int
		writes int
	}
	profs := make([]*prof, nScen)
	parallel(nScen, 16, func(i int) {
		s := mix(seed, uint64(4000+i))
		t := scen.NewTape(s ^ 0xc04)
		sc := scen.GenCrawl(t, scen.CrawlOpts{Prop: "C04", MinSeeds: 3, MaxSeeds: 8, Small: true, Hops: true, RateLimit: -1, Rotation: i%3 == 1})
		sc.Cfg.Proxy = false
		sc.Cfg.AsyncWARC = false
		sc.Cfg.TempInWarcs = i%3 == 2 // unusual but legal: spooled bodies go to the directory the WARC files are written to
		sc.Cfg.Seencheck = i%2 == 1   // with it on, a seed recorded as seen before the kill is skipped after restart (known finding)
		if sc.Cfg.MaxHops == 0 && i%2 == 0 {
			sc.Cfg.MaxHops = 1
		}
		c := &Case{Idx: 910000 + i, Seed: s, Scenario: sc, Label: "profile"}
		res, _ := runCase(c, false, nil, uniqSub("p"))
		for try := 0; try < 3 && (res == nil || res.rec == nil); try++ {
			fmt.Fprintf(os.Stderr, "vcheck: profiling run %d left no record (exit %d), repeating\n", i, res.exit)
			res, _ = runCase(c, false, nil, uniqSub("p"))
		}
		pr := &prof{sc: sc, seed: s, pc: pointCounts(res)}
		if res.rec != nil && res.rec.Summary != nil {
			if f, ok := res.rec.Summary["warc_writes"].(float64); ok {
				pr.writes = int(f)
			}
		}
		profs[i] = pr
	})
	var cases []*Case
	add := func(pr *prof, sd uint64, label string, ctl []scen.CtlAction, extra map[string]string) {
		sc := cloneScenario(pr.sc)
		sc.Ctl = ctl
		if extra != nil {
			sc.Extra = extra
		}
		cases = append(cases, &Case{Idx: len(cases), Seed: sd, Scenario: sc, Label: label, Restart: restartOf(pr.sc)})
	}
	for _, pr := range profs {
		var pts []string
		for pt := range pr.pc {
			if inFamilies(pt) && !idlePoints[pt] {
				pts = append(pts, pt)
			}
		}
		sort.Strings(pts)
		for _, pt := range pts {
			for _, nth := range occurrences(pr.pc[pt], tier) {
				add(pr, pr.seed, fmt.Sprintf("kill@%s#%d", pt, nth), []scen.CtlAction{{Name: "kill", Kind: "kill", Trigger: scen.Trigger{Point: pt, Nth: nth}}}, nil)
			}
		}
		// the same kills on the finish path with a WARC writer that lags far behind (finished must still imply captured)
		for j, pt := range []string{"lq.fin.deleted", "lq.fin.delete", "reactor.finish.released", "fin.finish.sent"} {
			for _, nth := range occurrences(pr.pc[pt], "quick") {
				add(pr, mix(pr.seed, uint64(500+j)), fmt.Sprintf("slow-warc-writer,kill@%s#%d", pt, nth), []scen.CtlAction{{Name: "kill", Kind: "kill", Trigger: scen.Trigger{Point: pt, Nth: nth}}}, nil)
				sc := cases[len(cases)-1].Scenario
				sc.Sched.Slow, sc.Sched.SlowDiv = "warc.write", 64
			}
		}
		// kill inside the k-th write to a WARC file, leaving a torn tail
		step := 1
		if tier != "thorough" && pr.writes > 24 {
			step = pr.writes / 24
		}
		for w := 1; w <= pr.writes; w += step {
			torn := []string{"0", "1", "17"}[w%3]
			add(pr, pr.seed, fmt.Sprintf("kill-in-warc-write#%d torn=%s", w, torn), nil, map[string]string{"kill_write": fmt.Sprint(w), "kill_torn": torn})
		}
		// seeded kill at a scheduler step
		for j := 0; j < 6; j++ {
			sd := mix(pr.seed, uint64(300+j))
			add(pr, sd, fmt.Sprintf("kill@step%d", 15+j*37), []scen.CtlAction{{Name: "kill", Kind: "kill", Trigger: scen.Trigger{AtStep: 15 + j*37}}}, nil)
		}
		// graceful stops at a few moments
		for j, pt := range []string{"lq.sender.recv", "reactor.insert.stored", "fetch.feedback.wait", "fin.finish.send", "lq.fin.recv", "lq.fin.cut", "lq.prod.recv"} {
			if pr.pc[pt] == 0 {
				continue
			}
			for _, nth := range occurrences(pr.pc[pt], "quick") {
				add(pr, pr.seed, fmt.Sprintf("stop@%s#%d", pt, nth), []scen.CtlAction{{Name: "stop", Kind: "stop", Trigger: scen.Trigger{Point: pt, Nth: nth}}}, nil)
			}
			_ = j
		}
	}
	return cases
}

func init() {
	props["C04"] = &propDef{level: "fault_enumeration", assumptions: append([]string{"a kill is a real SIGKILL of the simulation process: what survives is what write(2) had handed to the kernel (no power-loss model; Zeno never fsyncs)", "kills inside one sqlite commit are not reachable (no seam inside the wazero VFS)"}, e2eAssumptions...), components: e2eComponents, quickRuns: 3, thorRuns: 45,
		rule:   "per sampled scenario: one profiling run; then one two-process case per (instrumented point in the queue claim / reactor insert / finish / delete / WARC feedback paths, occurrence) with SIGKILL at that point, per WARC write #k with a torn tail, per seeded scheduler step, and per graceful-stop moment; each followed by a fault-free restart on the same job directory run to quiescence; distinct = distinct event-log hash of the first process; non-trivial as for C03",
		planFn: planC04,
	}
}

// ---------------------------------------------------------------- C16 (paired runs: N versus 4N seeds)

func planC16(p *propDef, tier string, seed uint64, n int) []*Case {
	type pair struct {
		a, b *scen.Scenario
		sa   uint64
		fp   string
	}
	pairs := make([]*pair, n)
	parallel(n, 16, func(i int) {
		s := mix(seed, uint64(16000+i))
		N := 3 + i%6
		mk := func(k int) *scen.Scenario {
			t := scen.NewTape(s ^ 0xc16)
			o := scen.CrawlOpts{Prop: "C16", MinSeeds: k, MaxSeeds: k, Faults: true, BodyVariety: i%2 == 0, Adversarial: true, NoBadSeeds: false, RateLimit: 1 - 2*(i%2), BigBodies: i%3 == 0}
			if i%2 == 0 {
				o.ManyHosts = 5 * k // many rate-limited hosts: the limiter table must stay within workers x per-worker concurrency
			}
			sc := scen.GenCrawl(t, o)
			sc.Extra = map[string]string{"footprint": "1"}
			sc.Sched.MaxSteps = 400000
			sc.Sched.MaxSimSec = 12 * 3600
			return sc
		}
		pr := &pair{a: mk(N), b: mk(4 * N), sa: s}
		for try := 0; try < 3 && pr.fp == ""; try++ { // a run lost to the wall-clock watchdog on a loaded machine is repeated
			res, _ := runCase(&Case{Idx: 920000 + i, Seed: s, Scenario: pr.a, Label: "N"}, false, nil, uniqSub("a"))
			if res.rec != nil && res.rec.Summary != nil {
				if f, ok := res.rec.Summary["footprint"]; ok {
					b, _ := json.Marshal(f)
					pr.fp = string(b)
				}
			}
		}
		pairs[i] = pr
	})
	// the limiter table under statement-level interleavings of concurrent first contacts (component simulation; only the
	// table bound is judged for this property)
	cases := compCases("C16", "ratelimiter", max(1, n/8), 150, seed^0xc16, nil)
	for _, pr := range pairs {
		cases = append(cases, &Case{Idx: len(cases), Seed: pr.sa, Scenario: pr.a, Label: "N-seeds"})
		b := pr.b
		if pr.fp != "" {
			b.Extra["expect_footprint"] = pr.fp
		}
		cases = append(cases, &Case{Idx: len(cases), Seed: mix(pr.sa, 4), Scenario: b, Label: "4N-seeds"})
	}
	return cases
}

func init() {
	props["C16"] = &propDef{level: "exploration", assumptions: append([]string{"the footprint is sampled 31 simulated minutes after the queue drained (beyond the limiter's clean-up period), after two forced GCs; goroutines are compared as a multiset keyed by entry function, descriptors by class (leveldb / sqlite table files are excluded from the equality: their number legitimately depends on data volume)"}, e2eAssumptions...), components: e2eComponents, quickRuns: 16, thorRuns: 600,
		rule:   "one pair = the same configuration crawled with N and with 4N generated seeds (N = 3-8; large and spooled bodies, failures, redirects, many hosts, limiter on/off): absolute requirements on each run (reactor table empty, no temp file, no descriptor into the temp directory, no socket, limiter table within workers x per-worker concurrency) and equality of the goroutine multiset and descriptor classes between the two; distinct/non-trivial as for C01",
		planFn: planC16,
	}
}
