package main

import (
	"fmt"
	"sort"
	"strings"
	"time"

	"github.com/internetarchive/Zeno/verifsim/scen"
)

type propDef struct {
	level       string
	rule        string
	assumptions []string
	components  map[string]string
	quickRuns   int
	thorRuns    int
	quickBudget time.Duration
	thorBudget  time.Duration
	gen         func(t *scen.Tape, i int, tier string) *scen.Scenario
	planFn      func(p *propDef, tier string, seed uint64, n int) []*Case
}

func (p *propDef) budget(tier string) time.Duration {
	if tier == "thorough" {
		if p.thorBudget > 0 {
			return p.thorBudget
		}
		return 30 * time.Minute
	}
	if p.quickBudget > 0 {
		return p.quickBudget
	}
	return 4 * time.Minute
}

func (p *propDef) plan(tier string, seed uint64, override int) []*Case {
	n := p.quickRuns
	if tier == "thorough" {
		n = p.thorRuns
	}
	if override > 0 {
		n = override
	}
	if p.planFn != nil {
		return p.planFn(p, tier, seed, n)
	}
	var cases []*Case
	for i := 0; i < n; i++ {
		s := mix(seed, uint64(i))
		t := scen.NewTape(s ^ 0xabcdef)
		sc := p.gen(t, i, tier)
		cases = append(cases, &Case{Idx: i, Seed: s, Scenario: sc, Label: sc.Name})
	}
	return cases
}

var e2eComponents = map[string]string{
	"zeno pipeline (reactor, preprocessor, archiver, postprocessor, finisher, lq, pause, watchers, ratelimiter)": "real code, build tag verif (hook calls only)",
	"github.com/CorentinB/warc v0.8.76 (HTTP client, WARC recorder/writer)":                                      "real, patched copy with dial/DNS/file seams (~30 added lines)",
	"sqlite (ncruces/wazero), leveldb, files in a scratch job directory":                                         "real",
	"origin web servers, network, DNS":                                                                           "simulated (in-memory pipes, hand-written HTTP/1.1 responder driven by the scenario)",
	"clock, timers, goroutine choice, select tie-breaks, map iteration order":                                    "owned by the simulator (testing/synctest bubble, hook-point scheduler, runtime overlay)",
}

var e2eAssumptions = []string{
	"goroutine interleavings are explored at the granularity of the hook points placed in /repo (build tag verif); code between two hook points of one goroutine runs atomically with respect to other hooked goroutines",
	"helper goroutines without hook points (HTTP transport loops, WARC writer pool, sqlite) run to quiescence inside each quantum; their internal races are not explored",
	"a clean batch is evidence over the seeds explored, not proof",
}

func crawlProp(level, rule string, q, th int, o scen.CrawlOpts) *propDef {
	return &propDef{level: level, rule: rule, assumptions: e2eAssumptions, components: e2eComponents, quickRuns: q, thorRuns: th,
		gen: func(t *scen.Tape, i int, tier string) *scen.Scenario {
			oo := o
			if tier == "thorough" && oo.MaxSeeds < 12 {
				oo.MaxSeeds += 4
			}
			if o.Prop == "C02" && i%7 == 3 {
				oo.Rotation = true // the WARC writer rotates files while seeds are being finished
			}
			if o.Prop == "C01" && i%5 == 4 {
				oo.HQ = true // the queue is crawl HQ (with a per-call fault plan) in a fifth of the cases
			}
			sc := scen.GenCrawl(t, oo)
			if o.Prop == "C02" && i%3 == 1 {
				// a WARC writer that lags behind everything else: "captured before finished" must hold against it
				// (as a whole, or a pseudo-random fifth of the individual writes while the others proceed)
				sc.Sched.Slow, sc.Sched.SlowDiv = []string{"warc.write", "~0", "~1", "~2", "~3", "~4"}[(i/3)%6], []int{8, 64}[(i/18)%2]
			}
			return sc
		}}
}

var compAssumptions = []string{
	"interleavings are explored at the granularity of the hook points inside the component plus the simulated clients' call boundaries",
	"a clean batch is evidence over the seeds explored, not proof",
}

func compCases(prop, comp string, children, iters int, seed uint64, extra map[string]string) []*Case {
	var cases []*Case
	for i := 0; i < children; i++ {
		ex := map[string]string{"engine": "comp", "comp": comp, "iters": fmt.Sprint(iters)}
		for k, v := range extra {
			ex[k] = v
		}
		sc := &scen.Scenario{Name: "comp-" + comp, Prop: prop, Extra: ex, Site: map[string]*scen.Resource{}}
		cases = append(cases, &Case{Idx: len(cases), Seed: mix(seed, uint64(7000+i)), Scenario: sc, Label: "comp-" + comp})
	}
	return cases
}

const crawlRule = "one case = one generated scenario (Zeno configuration, simulated web site, queue contents, fault plan) run under one seeded schedule; distinct = distinct SHA-256 of the canonical event log; non-trivial = at least one injected fault fired, or >= 2 HTTP exchanges, or > 30 scheduler decisions"

var props = map[string]*propDef{}

func init() {
	c01crawl := crawlProp("exploration", crawlRule, 480, 18000, scen.CrawlOpts{Prop: "C01", MinSeeds: 1, MaxSeeds: 8, Faults: true, Hops: true, Adversarial: true})
	props["C01"] = &propDef{level: c01crawl.level, rule: c01crawl.rule + "; plus the stop / pause enumeration of C03 on one (thorough: six) scenario(s): whatever is reported finished while the pipeline shuts down must have a finished tree", assumptions: c01crawl.assumptions, components: c01crawl.components, quickRuns: c01crawl.quickRuns, thorRuns: c01crawl.thorRuns,
		planFn: func(p *propDef, tier string, seed uint64, n int) []*Case {
			cases := c01crawl.plan(tier, seed, n)
			nProf := 1
			if tier == "thorough" {
				nProf = 6
			}
			for _, c := range planC03(p, tier, seed^0xc01, nProf) {
				c.Idx = len(cases)
				c.Label = "stop-enumeration: " + c.Label
				cases = append(cases, c)
			}
			return cases
		}}
	c02crawl := crawlProp("exploration", crawlRule, 480, 18000, scen.CrawlOpts{Prop: "C02", MinSeeds: 1, MaxSeeds: 6, Faults: true, BodyVariety: true})
	props["C02"] = &propDef{level: c02crawl.level, rule: c02crawl.rule + "; plus the stop / pause enumeration of C03 on one (thorough: six) scenario(s): a seed that is still reported finished while the pipeline shuts down must have its captures written all the same", assumptions: c02crawl.assumptions, components: c02crawl.components, quickRuns: c02crawl.quickRuns, thorRuns: c02crawl.thorRuns,
		planFn: func(p *propDef, tier string, seed uint64, n int) []*Case {
			cases := c02crawl.plan(tier, seed, n)
			nProf := 1
			if tier == "thorough" {
				nProf = 6
			}
			for j, c := range planC03(p, tier, seed^0xc02, nProf) {
				c.Idx = len(cases)
				c.Label = "stop-enumeration: " + c.Label
				if j%2 == 1 {
					c.Scenario.Sched.Slow, c.Scenario.Sched.SlowDiv = "warc.write", 64
				}
				cases = append(cases, c)
			}
			return cases
		}}
	c06crawl := crawlProp("exploration", crawlRule, 480, 18000, scen.CrawlOpts{Prop: "C06", MinSeeds: 1, MaxSeeds: 6, Faults: true, Hops: true, Adversarial: true})
	props["C06"] = &propDef{level: "exploration", rule: crawlRule + "; every fourth case crawls generated JSON / XML / RSS / sitemap / M3U8 documents instead, whose links must be queued with the parent's hops + 1", assumptions: e2eAssumptions, components: e2eComponents, quickRuns: 600, thorRuns: 24000,
		gen: func(t *scen.Tape, i int, tier string) *scen.Scenario {
			if i%4 == 3 {
				sc := scen.GenDocs(t, false)
				sc.Prop = "C06"
				return sc
			}
			if i%8 == 5 {
				return scen.GenDomainsCrawl(t) // the --domains-crawl clauses (hops reset to 0 on a match, counted otherwise)
			}
			return c06crawl.gen(t, i, tier)
		}}
	props["C05"] = &propDef{level: "exploration", rule: "one case = one generated (filter set, web site) pair: include/exclude host, string and regex filters x URL texts (absolute, upper-case, scheme-relative, userinfo, explicit port, fragment, other schemes, loopback, dot-less, archive.org) planted as seeds, redirect targets and assets, run under one seeded schedule; every request and every dial that reaches the simulated network is judged by a reference scope predicate; distinct/non-trivial as for C01", assumptions: append([]string{"the deciding power is the generator of URL texts x filters; schedules add little for this property (stated in DESIGN.md)"}, e2eAssumptions...), components: e2eComponents, quickRuns: 720, thorRuns: 24000,
		gen: func(t *scen.Tape, i int, tier string) *scen.Scenario {
			if i%4 == 3 {
				sc := scen.GenCrawl(t, scen.CrawlOpts{Prop: "C05", MinSeeds: 2, MaxSeeds: 6, Adversarial: true, Hops: true})
				return sc
			}
			return scen.GenScope(t)
		}}
	props["C07"] = &propDef{level: "exploration", rule: "one case = 1-3 generated HTML documents (embedding attribute x quoting x reference form x nesting x decoy text) with settings of disable-html-tag / capture-alternate-pages / disable-assets-capture / max-hops, crawled end to end under one seeded schedule; planted requisites (resolved by net/url against the page URL) must appear in the origin log before the page's seed is finished, anchors must be handed to the queue; distinct/non-trivial as for C01", assumptions: append([]string{"completeness over documents is sampled by the generator; the simulator contributes the end-to-end observation (extraction, feedback pass, normalisation, scope, fetch)"}, e2eAssumptions...), components: e2eComponents, quickRuns: 600, thorRuns: 24000,
		gen: func(t *scen.Tape, i int, tier string) *scen.Scenario { return scen.GenHTML(t) }}
	props["C11x"] = crawlProp("exploration", crawlRule+"; at every stage boundary the item tree handed to the hook is re-checked for well-formedness with public getters, and at the finisher's decision 'complete' is compared with 'no node awaits fetching or post-processing'", 600, 24000, scen.CrawlOpts{Prop: "C11", MinSeeds: 1, MaxSeeds: 8, Faults: true, Hops: true, Adversarial: true})
	props["C17x"] = crawlProp("exploration", crawlRule+"; at idle and after stop the metrics (total URLs crawled, finished seeds, worker gauges, mean response time) are compared with ground truth counted from hook events", 600, 18000, scen.CrawlOpts{Prop: "C17", MinSeeds: 1, MaxSeeds: 8, Faults: true, Hops: true})
	props["C08x"] = crawlProp("exploration", crawlRule+"; every seen-store check is judged against a reference model of completed records (stamped with scheduler steps)", 600, 18000, scen.CrawlOpts{Prop: "C08", MinSeeds: 2, MaxSeeds: 8, Faults: false, Hops: true, Adversarial: true})
	props["C09x"] = crawlProp("exploration", crawlRule+"; every canonical URL that flows through a crawl is re-rendered under other map-iteration orders, re-normalised and shape-checked", 600, 18000, scen.CrawlOpts{Prop: "C09", MinSeeds: 2, MaxSeeds: 8, Hops: true, Adversarial: true})
	props["C12"] = &propDef{level: "exploration", assumptions: compAssumptions, quickRuns: 96, thorRuns: 1800,
		components: map[string]string{"internal/pkg/reactor": "real code with hook points (build tag verif)", "producers, consumers, freeze controller": "simulated client actors", "scheduler, select tie-breaks": "owned by the simulator"},
		rule:       "one case = one bubble: 1-5 tokens, 1-3 producers, 1-3 consumers (answering each delivered seed with finish, repeated finish, feedback, or feedback for an unknown id), optional freeze at a scheduled point; all operations, schedule decisions and select tie-breaks drawn from one tape; distinct = distinct event-log hash; every case interleaves >= 2 actors, so all count as non-trivial",
		planFn: func(p *propDef, tier string, seed uint64, n int) []*Case {
			cases := compCases("C12", "reactor", n, 150, seed, nil)
			// the token-count dimension: thousands of tokens, all in use at once (real package, blocking decided by quiescence)
			for _, c := range compCases("C12", "reactorbig", max(1, n/16), 7, seed^0xb16, nil) {
				c.Idx = len(cases)
				cases = append(cases, c)
			}
			return cases
		}}
	props["C14"] = &propDef{level: "exploration", assumptions: compAssumptions, quickRuns: 96, thorRuns: 1800,
		components: map[string]string{"internal/pkg/controler/pause": "real code with hook points", "subscribers": "simulated workers with the shape of the stage worker loops (the real loops run in the pipeline engine, where C03's stop/pause enumeration exercises them)", "controllers (disk watchdog, WARC-queue watchdog, operator)": "simulated actors issuing matched and unmatched Pause/Resume sequences", "scheduler, select tie-breaks": "owned by the simulator"},
		rule:       "one case = one bubble: 1-5 subscribers (some exiting early), 1-3 independent controllers each running a script over {pause, resume} (matched, repeated, unmatched), a feeder offering work, then shutdown; all choices from one tape; distinct = distinct event-log hash; all cases interleave >= 3 actors",
		planFn: func(p *propDef, tier string, seed uint64, n int) []*Case {
			cases := compCases("C14", "pause", n, 150, seed, nil)
			// the real stage worker loops: the pause / resume / stop cases of the stop enumeration (operator pauses and the disk watchdog)
			nProf := 3
			if tier == "thorough" {
				nProf = 12
			}
			for _, c := range planC03(p, tier, seed^0xc14, nProf) {
				if strings.Contains(c.Label, "pause") || strings.Contains(c.Label, "disk-low") {
					c.Idx = len(cases)
					c.Label = "pipeline: " + c.Label
					cases = append(cases, c)
				}
			}
			return cases
		}}
	props["C13"] = &propDef{level: "exploration", assumptions: append([]string{"the window bound is evaluated on release instants of the fake clock with an absolute tolerance of 1e-6 tokens (the limiter accumulates float64 tokens)", "per-host state is only checked while the host keeps its bucket: runs of the class 'evict' (more hosts than buckets, short clean-up period) are explored for crashes/hangs only"}, compAssumptions...), quickRuns: 96, thorRuns: 1800,
		components: map[string]string{"internal/pkg/archiver/ratelimiter": "real code with hook points, real time package on the synctest fake clock", "waiters / reporters": "simulated actors"},
		rule:       "one case = one bubble: capacity in {1,2,5,20,150}, configured rate in {0.05..50}/s, 1-3 hosts, 1-4 concurrent waiters doing sequences of acquire / failure(429,403,408,425,500,503) / success with gaps from 0 to 10 simulated minutes, plus a class with failure streaks of 30-80; distinct = distinct event-log hash",
		planFn: func(p *propDef, tier string, seed uint64, n int) []*Case {
			cases := compCases("C13", "ratelimiter", n, 60, seed, nil)
			// the pipeline's use of the limiter: throttled hosts (some on explicit ports) whose URLs are retried
			for i := 0; i < 2*n; i++ {
				s := mix(seed, uint64(13000+i))
				t := scen.NewTape(s ^ 0xc13)
				sc := scen.GenCrawl(t, scen.CrawlOpts{Prop: "C13", MinSeeds: 2, MaxSeeds: 6, Small: true, NoBadSeeds: true, RateLimit: 1, Ports: true, Faults: i%2 == 1})
				cases = append(cases, &Case{Idx: len(cases), Seed: s, Scenario: sc, Label: "pipeline-limiter"})
			}
			return cases
		}}
	c09crawl := props["C09x"]
	delete(props, "C09x")
	props["C09"] = &propDef{level: "exploration", quickRuns: 180, thorRuns: 6000,
		assumptions: append([]string{"only the determinism clause is decided by simulation proper (the simulator owns map iteration order through the runtime overlay); idempotence, shape, relative resolution and query order are sampled by the URL grammar, with no claim of input-space coverage beyond the counts reported"}, e2eAssumptions...),
		components:  map[string]string{"internal/pkg/preprocessor.NormalizeURL, pkg/models.URL (String/URLToString/encodeQuery), goada (WHATWG parser, cgo)": "real", "map iteration order": "owned by the simulator (runtime overlay, SimSetBias)", "pipeline cases": "as for C01"},
		rule:        "component cases: one bubble = 12-24 (URL text, parent) pairs from a grammar (schemes, hosts incl. IDN/ports/userinfo/loopback, paths with dot segments and escapes, well-formed and malformed queries, fragments, quotes, relative references), each normalised in fresh objects under 7 different simulator-chosen map iteration orders, re-normalised, shape-checked, compared with net/url reference resolution and with the original parameter order; pipeline cases: as for C01 with every canonical URL cross-checked; distinct = distinct event-log hash (pipeline) or distinct tape (component)",
		planFn: func(p *propDef, tier string, seed uint64, n int) []*Case {
			cases := compCases("C09", "norm", max(2, n/6), 120, seed, nil)
			for _, c := range c09crawl.plan(tier, seed, n) {
				c.Idx = len(cases)
				cases = append(cases, c)
			}
			return cases
		}}
	c08crawl := props["C08x"]
	delete(props, "C08x")
	props["C08"] = &propDef{level: "exploration", quickRuns: 360, thorRuns: 12000, assumptions: append([]string{"crawl-HQ seencheck is exercised by the HQ cases of C15; this check covers the local seen-store"}, e2eAssumptions...),
		components: map[string]string{"internal/pkg/preprocessor/seencheck (real leveldb store in a scratch directory)": "real", "checkers": "component cases: 2-4 simulated preprocess-shaped actors; pipeline cases: the real preprocessor workers", "pkg/models (DedupeItems, URL.String)": "real"},
		rule:       "component cases: one bubble = 2-4 concurrent checkers running SeencheckItem on trees (seed, assets, redirect target) drawn from a pool of overlapping URL texts (case variants, permuted and repeated query parameters, equivalent escapes), scheduled at the hook points around lookup and record; pipeline cases: as for C01; every check is judged against a reference set of completed records stamped with scheduler steps; distinct = distinct event-log hash",
		planFn: func(p *propDef, tier string, seed uint64, n int) []*Case {
			cases := compCases("C08", "seen", max(2, n/10), 100, seed, nil)
			for i, c := range c08crawl.plan(tier, seed, n) {
				c.Idx = len(cases)
				if i%4 == 3 {
					// crawl-HQ seencheck: same site, queue and seen-store served by the simulated HQ (which already knows some URLs)
					c.Scenario.Cfg.UseHQ = true
					c.Scenario.Cfg.HQBatchSize = 1 + i%3
					hq := &scen.HQPlan{Faults: map[string][]string{}}
					if i%8 == 3 {
						hq.Faults["seencheck"] = []string{"", "500", "", "reset-before"}
					}
					keys := make([]string, 0, len(c.Scenario.Site))
					for key := range c.Scenario.Site {
						keys = append(keys, key)
					}
					sort.Strings(keys)
					for n, key := range keys {
						if n%3 == 0 {
							hq.Seen = append(hq.Seen, "http://"+key)
						}
					}
					if len(hq.Seen) > 6 {
						hq.Seen = hq.Seen[:6]
					}
					c.Scenario.HQ = hq
					c.Label = "crawl-hq"
				}
				cases = append(cases, c)
			}
			return cases
		}}
	props["C18"] = &propDef{level: "exploration", quickRuns: 300, thorRuns: 9000,
		assumptions: append([]string{"the temporal behaviour (pause at the first tick below the threshold, resume at the first tick at or above it) is what the simulation decides, with the real watcher loop on the fake clock and a seeded free-space history behind the statfs seam; threshold arithmetic is sampled by a boundary-biased generator over what statfs can report (blocks x block size), no exhaustiveness claimed", "start-up refusal is checked through watchers.CheckDiskUsage, the call startPipeline makes before anything else"}, e2eAssumptions...),
		components:  map[string]string{"internal/pkg/controler/watchers (CheckDiskUsage, WatchDiskSpace loop)": "real", "statfs(2) result": "stub behind the verifhook.Statfs seam", "pipeline cases": "as for C01, plus the pause manager and the real stage workers"},
		rule:        "component cases: one bubble = 40-80 (total, min-space) settings x ~8 free-space values biased to the exact threshold +-2 blocks, 0, total and the 256 GiB boundary, decision compared with exact rational arithmetic, plus monotonicity on every pair; pipeline cases: crawl scenarios with a free-space history that crosses the threshold, every tick verdict and every pause/resume of the watchdog judged; distinct as for C09",
		planFn: func(p *propDef, tier string, seed uint64, n int) []*Case {
			cases := compCases("C18", "disk", max(2, n/10), 60, seed, nil)
			for i := 0; i < n; i++ {
				s := mix(seed, uint64(i))
				t := scen.NewTape(s ^ 0xc18)
				sc := scen.GenCrawl(t, scen.CrawlOpts{Prop: "C18", MinSeeds: 2, MaxSeeds: 6, Small: true, NoBadSeeds: true, Faults: true})
				scen.WithDiskHistory(t, sc)
				cases = append(cases, &Case{Idx: len(cases), Seed: s, Scenario: sc, Label: "crawl-disk"})
			}
			return cases
		}}
	props["C15"] = &propDef{level: "fault_enumeration", quickRuns: 480, thorRuns: 15000,
		assumptions: append([]string{"crawl HQ is a simulated stateful service (URL table, seencheck set, websocket sink); a fault plan assigns to the k-th call of each kind one of {ok, 500, reset before apply, reset after apply, timeout}; duplicates at HQ are accepted only when some call was applied and then lost", "deliveries still pending when the crawl is stopped are outside the statement ('while the crawler keeps running')"}, e2eAssumptions...),
		components:  map[string]string{"internal/pkg/source/hq (consumer, producer, finisher, seencheck, websocket), internal/pkg/source/lq": "real code with hook points", "github.com/internetarchive/gocrawlhq v1.2.31": "real, patched copy with a websocket dial seam; REST through a replaced http.DefaultTransport", "crawl HQ": "simulated service with per-call fault plan", "rest of the pipeline": "as for C01"},
		rule:        "one case = one crawl with outlinks (max-hops 1-2) against either the simulated crawl HQ with a generated per-call fault sequence (5xx, reset before/after apply, timeout) over add/delete/get/seencheck calls and batch sizes 1-4, or the local sqlite queue; conservation of (text, via, hops) and of finish ids between what the pipeline emitted and what the queue applied is checked once the crawl is idle; distinct/non-trivial as for C01",
		gen: func(t *scen.Tape, i int, tier string) *scen.Scenario {
			if i%12 == 5 || i%12 == 11 {
				return scen.GenQueuePileUp(t, i%12 == 5) // an outage longer than the queue client's buffers hold
			}
			o := scen.CrawlOpts{Prop: "C15", MinSeeds: 2, MaxSeeds: 6, Hops: true, Faults: true, NoBadSeeds: i%3 == 0}
			o.HQ = i%2 == 0
			sc := scen.GenCrawl(t, o)
			if sc.Cfg.MaxHops == 0 {
				sc.Cfg.MaxHops = 1 + i%2
			}
			return sc
		}}
	props["C19"] = &propDef{level: "exploration", quickRuns: 480, thorRuns: 15000,
		assumptions: append([]string{"the bucket walk is a multi-request history against a stateful simulated S3-style service through queue -> seed -> fetch; completeness over documents is sampled by the generator (URLs planted by construction)", "object URLs are https: the simulated origin does not speak TLS, so objects themselves are queued but fail to download (max-retry 0); the property speaks of queueing"}, e2eAssumptions...),
		components:  e2eComponents,
		rule:        "one case = either 1-3 generated JSON / XML / RSS / sitemap / M3U8 documents (as seed or as an asset of a page) with URLs planted at several nesting depths, in attributes, text, CDATA, JSON-in-string and escaped forms, or one S3-style bucket (1-22 keys in prefix trees, zero-size keys, page size 1-7, marker or continuation-token API, with or without delimiter, four Server header variants) walked to the end; distinct/non-trivial as for C01",
		gen:         func(t *scen.Tape, i int, tier string) *scen.Scenario { return scen.GenDocs(t, i%2 == 1) }}
	props["C10"] = &propDef{level: "exploration", quickRuns: 720, thorRuns: 36000,
		assumptions: append([]string{"the origin is the adversary: structure-aware samples per declared type (HTML, JSON, XML, sitemap, S3 listing, M3U8, PDF, plain text) damaged by generic mutations, plus hostile Location / Link / Content-Type / Content-Encoding headers and lying lengths; coverage-guided fuzzing of the extractors would dig deeper per CPU hour but is another technique", "a process crash (Go panic / fatal error) anywhere in the crawler, a goroutine still running inside input processing when the wall-clock limit expires, or damage spreading to well-behaved seeds are violations; a watchdog expiry without such a goroutine is reported as infrastructure failure, not as a violation"}, e2eAssumptions...),
		components:  e2eComponents,
		rule:        "one case = 1-4 hostile documents (as seed or as asset of a page) next to 1-2 well-behaved bystander seeds, crawled end to end under one seeded schedule; distinct/non-trivial as for C01",
		gen: func(t *scen.Tape, i int, tier string) *scen.Scenario {
			if i == 0 {
				return scen.HostilePDFNestedDicts() // pinned: the recorded finding (see known_findings.json) is exercised by every run of the check
			}
			return scen.GenHostile(t)
		}}
	c17crawl := props["C17x"]
	delete(props, "C17x")
	props["C17"] = &propDef{level: "exploration", quickRuns: 360, thorRuns: 12000,
		assumptions: append([]string{"component cases run a copy of /repo/internal/pkg/stats that vcheck re-generates on every invocation with a go/ast rewriter: a scheduling point before every statement, non-atomic read-modify-write on fields split into load / yield / store, sync.Mutex replaced by a simulator-aware mutex; this exposes lost updates and torn multi-step sequences at statement level, not hardware reordering or the atomicity of a single atomic instruction", "totals, gauges and means are compared after the burst (quiescent end state), as the statement says"}, e2eAssumptions...),
		components:  map[string]string{"internal/pkg/stats": "component cases: statement-level instrumented copy generated from /repo; pipeline cases: the real package", "clients": "component cases: 2-6 simulated goroutines issuing incr / decr / add / read / reset; pipeline cases: the real stage workers"},
		rule:        "component cases: one bubble = 2-6 concurrent clients x 2-8 operations each over {URLs crawled, seeds finished, worker gauges (balanced incr/decr), per-status counters, mean samples, reads, window resets}, every statement boundary a scheduling decision, end state compared with a sequential model; pipeline cases: as for C01 with metrics compared with hook-counted ground truth at idle and after stop; distinct = distinct event-log hash",
		planFn: func(p *propDef, tier string, seed uint64, n int) []*Case {
			cases := compCases("C17", "stats", max(2, n/10), 100, seed, nil)
			for _, c := range c17crawl.plan(tier, seed, n) {
				c.Idx = len(cases)
				cases = append(cases, c)
			}
			// "zero after stop" whenever the stop comes: the stop / pause enumeration of C03 (workers leave through every exit path)
			nProf := 1
			if tier == "thorough" {
				nProf = 8
			}
			for _, c := range planC03(p, tier, seed^0xc17, nProf) {
				c.Idx = len(cases)
				c.Label = "stop-enumeration: " + c.Label
				cases = append(cases, c)
			}
			return cases
		}}
	c11crawl := props["C11x"]
	delete(props, "C11x")
	props["C11"] = &propDef{level: "exploration", quickRuns: 480, thorRuns: 18000, assumptions: append([]string{"component cases generate pipeline-shaped trees (duplicates only among childless nodes, internal nodes in GotChildren / GotRedirected, trees the model's own CheckConsistency accepts); exhaustive small-scope enumeration of all trees x statuses would be bounded model checking, another technique"}, e2eAssumptions...),
		components: map[string]string{"pkg/models (Item tree, DedupeItems, CompleteAndCheck, markCompleted)": "real", "pipeline cases": "as for C01, monitor at every stage boundary"},
		rule:       "component cases: one bubble = 6-15 random trees of up to 20 nodes (URLs from a pool of 7, so duplicates are frequent; leaf statuses over all eight states), each de-duplicated and completion-marked, with uniqueness / no-URL-lost / well-formedness / 'complete iff nothing pending' re-stated independently through public getters; pipeline cases: as for C01 with the same monitor at every stage boundary; distinct as for C09",
		planFn: func(p *propDef, tier string, seed uint64, n int) []*Case {
			cases := compCases("C11", "tree", max(2, n/10), 150, seed, nil)
			for _, c := range c11crawl.plan(tier, seed, n) {
				c.Idx = len(cases)
				cases = append(cases, c)
			}
			return cases
		}}
	_ = fmt.Sprint
}
