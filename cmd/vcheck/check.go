package main

import (
	"encoding/json"
	"fmt"
	"os"
	"path/filepath"
	"sort"
	"strings"
	"sync"
	"time"

	"github.com/internetarchive/Zeno/verifsim/scen"
)

type knownFindings struct {
	Findings []struct {
		Property    string `json:"property"`
		Oracle      string `json:"oracle"`
		Signature   string `json:"signature"`
		Where       string `json:"where"`
		Match       string `json:"match,omitempty"` // substring that must occur in the violation detail
		Description string `json:"description"`
	} `json:"findings"`
	Fixed []map[string]string `json:"fixed"`
}

func loadKnown() *knownFindings {
	var k knownFindings
	b, err := os.ReadFile(filepath.Join(verifDir, "known_findings.json"))
	if err == nil {
		json.Unmarshal(b, &k)
	}
	return &k
}

func (k *knownFindings) match(v scen.Violation) (string, bool) {
	for _, f := range k.Findings {
		if f.Property == v.Property && f.Signature == v.Signature && (f.Oracle == "" || f.Oracle == v.Oracle) && (f.Match == "" || strings.Contains(v.Detail, f.Match)) {
			return f.Where + ": " + f.Description, true
		}
	}
	return "", false
}

// ReplayFile is what a violation is reported as.
type ReplayFile struct {
	Property  string         `json:"property"`
	Oracle    string         `json:"oracle"`
	Signature string         `json:"signature"`
	Detail    string         `json:"detail"`
	Seed      uint64         `json:"seed"`
	Label     string         `json:"label,omitempty"`
	Scenario  *scen.Scenario `json:"scenario"`
	Restart   *scen.Scenario `json:"restart,omitempty"`
	Tape      []int          `json:"tape"`
	Tape2     []int          `json:"tape2,omitempty"`
	Crash     string         `json:"crash,omitempty"`
	Expected  struct {
		Hash string `json:"hash"`
		Step int    `json:"step"`
	} `json:"expected"`
	Minimised bool          `json:"minimised"`
	Trace     []*scen.Event `json:"trace_tail,omitempty"`
}

type agg struct {
	mu         sync.Mutex
	evals      int
	hashes     map[string]bool
	nontrivial map[string]bool
	pairs      map[string]bool
	steps      int64
	events     int64
	simNs      int64
	faults     map[string]int
	probes     map[string]int
	endReasons map[string]int
	labels     map[string]int
	samples    []any
	infra      []string
	anon       int
	requests   int64
	wallChild  time.Duration
}

func newAgg() *agg {
	return &agg{hashes: map[string]bool{}, nontrivial: map[string]bool{}, pairs: map[string]bool{}, faults: map[string]int{}, probes: map[string]int{}, endReasons: map[string]int{}, labels: map[string]int{}}
}

func (a *agg) add(c *Case, res *childResult) {
	a.mu.Lock()
	defer a.mu.Unlock()
	a.evals++
	a.wallChild += res.wall
	if c.Label != "" {
		kind := c.Label
		if i := strings.IndexAny(kind, "#|:"); i > 0 {
			kind = kind[:i]
		}
		if i := strings.IndexByte(kind, '@'); i > 0 {
			rest := kind[i+1:]
			if j := strings.IndexByte(rest, ','); j >= 0 {
				kind = kind[:i] + rest[j:]
			} else {
				kind = kind[:i]
			}
		}
		a.labels[strings.TrimSpace(kind)]++
	}
	rec := res.rec
	if rec == nil {
		return
	}
	if its, ok := rec.Summary["iter_hashes"].([]any); ok {
		// component simulation: one child = many iterations (bubbles)
		if n, ok := rec.Summary["iterations"].(float64); ok {
			a.evals += int(n) - 1
		} else {
			a.evals += len(its) - 1
		}
		for _, h := range its {
			if hs, ok := h.(string); ok {
				a.hashes[hs] = true
				a.nontrivial[hs] = true
			}
		}
		for k, v := range rec.Faults {
			a.faults[k] += v
		}
		for k, v := range rec.Probes {
			a.probes[k] += v
		}
		for _, p := range rec.PairList {
			a.pairs[p] = true
		}
		a.steps += int64(rec.Steps)
		a.events += int64(rec.Events)
		a.simNs += rec.SimNs
		a.endReasons[rec.EndReason]++
		a.anon += rec.Anon
		if len(a.samples) < 3 {
			if ss, ok := rec.Summary["samples"].([]any); ok && len(ss) > 0 {
				a.samples = append(a.samples, map[string]any{"seed": c.Seed, "component": c.Scenario.Extra["comp"], "iteration_sample": ss[0]})
			}
		}
		return
	}
	a.hashes[rec.Hash] = true
	faults := 0
	for k, v := range rec.Faults {
		a.faults[k] += v
		faults += v
	}
	for k, v := range rec.Probes {
		a.probes[k] += v
	}
	for _, p := range rec.PairList {
		a.pairs[p] = true
	}
	if faults > 0 || rec.Requests >= 2 || rec.Steps > 30 {
		a.nontrivial[rec.Hash] = true
	}
	a.steps += int64(rec.Steps)
	a.events += int64(rec.Events)
	a.simNs += rec.SimNs
	a.endReasons[rec.EndReason]++
	a.anon += rec.Anon
	a.requests += int64(rec.Requests)
	if len(a.samples) < 3 {
		a.samples = append(a.samples, map[string]any{"seed": c.Seed, "label": c.Label, "end": rec.EndReason, "steps": rec.Steps, "events": rec.Events, "sim_seconds": float64(rec.SimNs) / 1e9,
			"requests": rec.Requests, "faults": rec.Faults, "config": c.Scenario.Cfg, "queue": c.Scenario.Queue, "site_urls": len(c.Scenario.Site), "ctl": c.Scenario.Ctl, "hash": rec.Hash, "summary": rec.Summary})
	}
}

func runCase(c *Case, keepLog bool, tapes [][]int, sub string) (*childResult, *childResult) {
	dir := filepath.Join(workRoot, fmt.Sprintf("case-%d%s", c.Idx, sub))
	os.RemoveAll(dir)
	in := &scen.RunInput{Property: c.Scenario.Prop, Seed: c.Seed, Scenario: c.Scenario, JobDir: dir, KeepLog: keepLog}
	if tapes != nil {
		in.Replay = true
		in.Tape = tapes[0]
		if in.Tape == nil {
			in.Tape = []int{}
		}
	}
	res := runChild(in, wallLimitFor(c.Scenario), 0)
	var res2 *childResult
	if c.Restart != nil {
		in2 := &scen.RunInput{Property: c.Scenario.Prop, Seed: c.Seed ^ 0x5555, Scenario: c.Restart, JobDir: dir, KeepLog: keepLog, Phase: 1}
		if tapes != nil && len(tapes) > 1 {
			in2.Replay = true
			in2.Tape = tapes[1]
			if in2.Tape == nil {
				in2.Tape = []int{}
			}
		}
		res2 = runChild(in2, wallLimitFor(c.Restart), 0)
	}
	if !keepWork {
		defer os.RemoveAll(dir)
	}
	return res, res2
}

// wallCap (when > 0) bounds the wall-clock limit of re-executions during minimisation: a re-run of a case that took
// a second at first and now runs for a minute has hung, there is no point in waiting out the full limit every time.
var wallCap time.Duration

// minimiseDeadline bounds the total time one check spends minimising (several violation classes share it).
var minimiseDeadline time.Time

func wallLimitFor(sc *scen.Scenario) time.Duration {
	d := wallLimitFor0(sc)
	if wallCap > 0 && wallCap < d {
		return wallCap
	}
	return d
}

func wallLimitFor0(sc *scen.Scenario) time.Duration {
	if sc != nil && sc.Extra != nil && sc.Extra["footprint"] != "" {
		return 240 * time.Second
	}
	if sc != nil && sc.Extra != nil && sc.Extra["wall_limit_s"] != "" {
		var s int
		if fmt.Sscan(sc.Extra["wall_limit_s"], &s); s > 0 {
			return time.Duration(s) * time.Second
		}
	}
	return 75 * time.Second
}

// violationsOf extracts the violations that count for prop from a case's results.
func violationsOf(prop string, c *Case, res, res2 *childResult) ([]scen.Violation, []string) {
	var out []scen.Violation
	var infra []string
	for phase, r := range []*childResult{res, res2} {
		if r == nil {
			continue
		}
		expectKill := phase == 0 && c.Scenario != nil && hasKill(c.Scenario)
		if r.crashed {
			out = append(out, scen.Violation{Property: crashProperty(prop), Oracle: "crash", Signature: "crash:" + crashClass(r.crashSig), Detail: r.crashSig + "\n" + r.crashHead})
			continue
		}
		if r.timedOut {
			infra = append(infra, fmt.Sprintf("case %d phase %d: wall-clock watchdog\n%s", c.Idx, phase, tailOf(r.stderr, 4000)))
			continue
		}
		if r.rec == nil {
			if expectKill && r.exit == 128+9 {
				continue
			}
			infra = append(infra, fmt.Sprintf("case %d phase %d: no run record (exit %d)\n%s", c.Idx, phase, r.exit, tailOf(r.stderr, 3000)))
			continue
		}
		if r.rec.Panic != "" {
			infra = append(infra, fmt.Sprintf("case %d phase %d: harness panic: %s", c.Idx, phase, r.rec.Panic))
			continue
		}
		for _, v := range r.rec.Violations {
			if v.Property == prop {
				out = append(out, v)
			}
		}
	}
	return out, infra
}

func hasKill(sc *scen.Scenario) bool {
	for _, a := range sc.Ctl {
		if a.Kind == "kill" {
			return true
		}
	}
	return false
}

// crashProperty: a crash of the crawler is a violation of the property under
// check when that property speaks about crashes; otherwise it is reported under C10/C03.
func crashProperty(prop string) string { return prop }

func crashClass(sig string) string {
	s := sig
	if i := strings.Index(s, "goroutine "); i > 0 {
		s = s[:i]
	}
	// strip addresses / ids
	fields := strings.Fields(s)
	var keep []string
	for _, f := range fields {
		if strings.HasPrefix(f, "0x") || strings.ContainsAny(f, "0123456789") && len(f) > 12 || isHexish(f) {
			continue
		}
		keep = append(keep, f)
	}
	if len(keep) > 12 {
		keep = keep[:12]
	}
	return strings.Join(keep, " ")
}

// isHexish: short ids (uuid prefixes) that differ from run to run
func isHexish(f string) bool {
	if len(f) < 4 || !strings.ContainsAny(f, "0123456789") {
		return false
	}
	for _, r := range f {
		if !(r >= '0' && r <= '9' || r >= 'a' && r <= 'f' || r == '-') {
			return false
		}
	}
	return true
}

func tailOf(s string, n int) string {
	if len(s) > n {
		return "…" + s[len(s)-n:]
	}
	return s
}

func doCheck(prop, tier string, seed uint64, runsOverride, workers int) int {
	start := time.Now()
	p, ok := props[prop]
	if !ok {
		fatal2("unknown property %s", prop)
	}
	cases := p.plan(tier, seed, runsOverride)
	a := newAgg()
	var mu sync.Mutex
	var founds []found
	var infra []string
	deadline := start.Add(p.budget(tier))
	parallel(len(cases), workers, func(i int) {
		if time.Now().After(deadline) {
			return
		}
		c := cases[i]
		res, res2 := runCase(c, false, nil, "")
		a.add(c, res)
		if res2 != nil {
			a.add(&Case{Idx: c.Idx, Seed: c.Seed, Scenario: c.Restart, Label: "restart"}, res2)
		}
		vs, inf := violationsOf(prop, c, res, res2)
		mu.Lock()
		infra = append(infra, inf...)
		for _, v := range vs {
			founds = append(founds, found{c: c, v: v, res: res})
		}
		mu.Unlock()
	})
	known := loadKnown()
	// one report per (oracle, signature) class
	type cls struct{ oracle, sig string }
	seen := map[cls]bool{}
	sort.Slice(founds, func(i, j int) bool { return founds[i].c.Idx < founds[j].c.Idx })
	nViol := 0
	knownPrinted := map[string]bool{}
	for _, f := range founds {
		if what, ok := known.match(f.v); ok {
			if !knownPrinted[what] {
				knownPrinted[what] = true
				fmt.Printf("KNOWN-FINDING: property=%s %s\n", prop, what)
			}
			continue
		}
		k := cls{f.v.Oracle, f.v.Signature}
		if seen[k] {
			continue
		}
		seen[k] = true
		nViol++
		path := reportViolation(prop, f)
		fmt.Printf("VIOLATION property=%s replay=%s\n", prop, path)
		fmt.Printf("  oracle=%s signature=%s seed=%d label=%s\n  %s\n", f.v.Oracle, f.v.Signature, f.c.Seed, f.c.Label, firstLines(f.v.Detail, 6))
	}
	writeEvidence(prop, tier, seed, p, a, nViol, len(knownPrinted), time.Since(start), len(cases), infra)
	if len(infra) > 0 {
		for i, s := range infra {
			if i < 3 {
				fmt.Fprintln(os.Stderr, "INFRA:", s)
			}
		}
		if nViol == 0 && len(infra)*20 > a.evals {
			fmt.Fprintf(os.Stderr, "vcheck: %d of %d runs failed for infrastructure reasons\n", len(infra), a.evals)
			return 2
		}
	}
	fmt.Printf("%s: %d runs, %d distinct histories, %d violations, %d known findings, %.1fs\n", prop, a.evals, len(a.hashes), nViol, len(knownPrinted), time.Since(start).Seconds())
	if nViol > 0 {
		return 1
	}
	return 0
}

func firstLines(s string, n int) string {
	lines := strings.Split(s, "\n")
	if len(lines) > n {
		lines = lines[:n]
	}
	out := strings.Join(lines, "\n  ")
	if len(out) > 1500 {
		out = out[:1500] + "…"
	}
	return out
}

func hqFaults(sc *scen.Scenario) map[string][]string {
	if sc.HQ == nil {
		return nil
	}
	return sc.HQ.Faults
}

func sameClass(prop string, want scen.Violation, c *Case, res, res2 *childResult) (scen.Violation, bool) {
	vs, _ := violationsOf(prop, c, res, res2)
	for _, v := range vs {
		if v.Oracle == want.Oracle && v.Signature == want.Signature {
			return v, true
		}
	}
	return scen.Violation{}, false
}

// reportViolation minimises (bounded) and writes the replay file.
func reportViolation(prop string, f found) string {
	c := f.c
	// re-run with the recorded tape to obtain the log and to make sure it replays
	tape := []int(nil)
	if f.res != nil && f.res.rec != nil {
		tape = f.res.rec.Tape
	}
	if f.res != nil && f.res.rec != nil && f.res.rec.Summary != nil {
		if vi, ok := f.res.rec.Summary["viol_iter"].(float64); ok {
			sc := cloneScenario(c.Scenario)
			sc.Extra["only_iter"] = fmt.Sprint(int(vi))
			c = &Case{Idx: c.Idx, Seed: c.Seed, Scenario: sc, Label: c.Label}
		}
	}
	best := &Case{Idx: 100000 + c.Idx, Seed: c.Seed, Scenario: c.Scenario, Label: c.Label, Restart: c.Restart}
	bestTape := tape
	minimised := false
	budget := time.Now().Add(4 * time.Minute)
	if minimiseDeadline.IsZero() {
		minimiseDeadline = time.Now().Add(8 * time.Minute)
	}
	if budget.After(minimiseDeadline) {
		budget = minimiseDeadline
	}
	if f.res != nil && !f.res.timedOut && f.res.wall > 0 {
		wallCap = max(15*time.Second, 5*f.res.wall)
		defer func() { wallCap = 0 }()
	}
	tries := 0
	try := func(sc *scen.Scenario, tp []int) bool {
		if time.Now().After(budget) || tries > 200 {
			return false
		}
		tries++
		cc := &Case{Idx: 200000 + tries, Seed: c.Seed, Scenario: sc, Label: c.Label, Restart: c.Restart}
		var tapes [][]int
		if tp != nil {
			tapes = [][]int{tp}
		} else {
			tapes = [][]int{{}}
		}
		r, r2 := runCase(cc, false, tapes, "m")
		if _, ok := sameClass(prop, f.v, cc, r, r2); ok {
			best = cc
			if r.rec != nil {
				bestTape = r.rec.Tape
			} else {
				bestTape = tp
			}
			return true
		}
		return false
	}
	if strings.HasPrefix(f.v.Signature, "crash:spin") {
		budget = time.Now() // every re-execution of a hang costs the whole wall-clock limit: report it as found
	}
	if tape != nil || f.res.crashed {
		// 1. all-zero schedule (FIFO-like)
		if try(best.Scenario, []int{}) {
			minimised = true
		}
		// 2. drop queue rows
		for i := 0; i < len(best.Scenario.Queue) && len(best.Scenario.Queue) > 1; {
			sc := cloneScenario(best.Scenario)
			sc.Queue = append(sc.Queue[:i:i], sc.Queue[i+1:]...)
			if try(sc, bestTape) {
				minimised = true
			} else {
				i++
			}
		}
		// 2b. remove injected faults that the violation does not need: queue-call faults, then origin faults (sorted keys, bounded)
		for _, plan := range []map[string][]string{best.Scenario.LQFaults, hqFaults(best.Scenario)} {
			kinds := make([]string, 0, len(plan))
			for kind := range plan {
				kinds = append(kinds, kind)
			}
			sort.Strings(kinds)
			for _, kind := range kinds {
				if len(plan[kind]) == 0 {
					continue
				}
				sc := cloneScenario(best.Scenario)
				if sc.LQFaults != nil && len(sc.LQFaults[kind]) > 0 && len(best.Scenario.LQFaults[kind]) > 0 {
					sc.LQFaults[kind] = nil
				} else if sc.HQ != nil && sc.HQ.Faults != nil {
					sc.HQ.Faults[kind] = nil
				}
				if try(sc, bestTape) {
					minimised = true
				}
			}
		}
		{
			keys := make([]string, 0, len(best.Scenario.Site))
			for key, res := range best.Scenario.Site {
				for _, rp := range res.Resp {
					if rp.Fault != "" {
						keys = append(keys, key)
						break
					}
				}
			}
			sort.Strings(keys)
			for i, key := range keys {
				if i >= 12 {
					break
				}
				sc := cloneScenario(best.Scenario)
				for j := range sc.Site[key].Resp {
					sc.Site[key].Resp[j].Fault = ""
				}
				if try(sc, bestTape) {
					minimised = true
				}
			}
		}
		// 3. shorten the tape (zero the tail)
		for cut := len(bestTape) / 2; cut > 8 && len(bestTape) > 16; cut /= 2 {
			tp := append([]int(nil), bestTape[:len(bestTape)-cut]...)
			if try(best.Scenario, tp) {
				minimised = true
			}
		}
	}
	// final confirming run with the log kept
	fin := &Case{Idx: 300000 + c.Idx, Seed: best.Seed, Scenario: best.Scenario, Label: best.Label, Restart: best.Restart}
	var tapes [][]int
	if bestTape != nil {
		tapes = [][]int{bestTape}
	} else {
		tapes = [][]int{{}}
	}
	r, r2 := runCase(fin, true, tapes, "f")
	rf := &ReplayFile{Property: prop, Oracle: f.v.Oracle, Signature: f.v.Signature, Detail: f.v.Detail, Seed: best.Seed, Label: best.Label, Scenario: best.Scenario, Restart: best.Restart, Tape: bestTape, Minimised: minimised}
	if v, ok := sameClass(prop, f.v, fin, r, r2); ok {
		rf.Detail = v.Detail
		rf.Expected.Step = v.Step
		if r.rec != nil {
			rf.Expected.Hash = r.rec.Hash
			rf.Tape = r.rec.Tape
			var lg []*scen.Event
			for _, e := range r.rec.Log {
				if e.Step >= v.Step-45 && e.Step <= v.Step+1 && e.Actor != "!sched" {
					lg = append(lg, e)
				}
			}
			if len(lg) > 120 {
				lg = lg[len(lg)-120:]
			}
			rf.Trace = lg
		}
		if r2 != nil && r2.rec != nil {
			rf.Tape2 = r2.rec.Tape
		}
		if r.crashed {
			rf.Crash = r.crashSig
		}
	} else {
		// could not confirm the minimised form: fall back to the original
		rf.Scenario, rf.Tape, rf.Minimised = c.Scenario, tape, false
		if f.res.rec != nil {
			rf.Expected.Hash = f.res.rec.Hash
		}
		rf.Expected.Step = f.v.Step
	}
	os.MkdirAll(filepath.Join(verifDir, "replays"), 0o755)
	name := fmt.Sprintf("%s-%s-%d.json", prop, sanitize(f.v.Signature), c.Seed)
	path := filepath.Join(verifDir, "replays", name)
	b, _ := json.MarshalIndent(rf, "", " ")
	os.WriteFile(path, b, 0o644)
	return path
}

func sanitize(s string) string {
	var sb strings.Builder
	for _, r := range s {
		if r >= 'a' && r <= 'z' || r >= 'A' && r <= 'Z' || r >= '0' && r <= '9' || r == '-' {
			sb.WriteRune(r)
		} else {
			sb.WriteByte('_')
		}
		if sb.Len() > 50 {
			break
		}
	}
	return sb.String()
}

func cloneScenario(sc *scen.Scenario) *scen.Scenario {
	b, _ := json.Marshal(sc)
	var out scen.Scenario
	json.Unmarshal(b, &out)
	return &out
}

func doReplay(prop, path string) int {
	b, err := os.ReadFile(path)
	if err != nil {
		fatal2("replay: %v", err)
	}
	var rf ReplayFile
	if err := json.Unmarshal(b, &rf); err != nil {
		fatal2("replay: %v", err)
	}
	c := &Case{Idx: 1, Seed: rf.Seed, Scenario: rf.Scenario, Restart: rf.Restart, Label: rf.Label}
	tapes := [][]int{rf.Tape}
	if rf.Tape == nil {
		tapes = [][]int{{}}
	}
	if rf.Restart != nil {
		tapes = append(tapes, rf.Tape2)
	}
	r, r2 := runCase(c, true, tapes, "r")
	if r.rec != nil {
		os.MkdirAll(filepath.Join(verifDir, "replays", "tmp"), 0o755)
		var sb strings.Builder
		for _, e := range r.rec.Log {
			fmt.Fprintf(&sb, "%d %dms %s %s %v\n", e.Step, e.T/1000000, e.Actor, e.Point, e.Args)
		}
		os.WriteFile(filepath.Join(verifDir, "replays", "tmp", filepath.Base(path)+".log"), []byte(sb.String()), 0o644)
	}
	want := scen.Violation{Property: rf.Property, Oracle: rf.Oracle, Signature: rf.Signature}
	v, ok := sameClass(rf.Property, want, c, r, r2)
	if !ok {
		fmt.Printf("replay: violation NOT reproduced (property=%s oracle=%s signature=%s)\n", rf.Property, rf.Oracle, rf.Signature)
		if r.rec != nil {
			fmt.Printf("replay: run ended %s hash=%s\n", r.rec.EndReason, r.rec.Hash)
		}
		return 0
	}
	hashOK := r.rec == nil || rf.Expected.Hash == "" || r.rec.Hash == rf.Expected.Hash
	fmt.Printf("VIOLATION property=%s replay=%s\n", rf.Property, path)
	fmt.Printf("  reproduced: oracle=%s signature=%s step=%d (expected step %d) event-hash-match=%v\n  %s\n", v.Oracle, v.Signature, v.Step, rf.Expected.Step, hashOK, firstLines(v.Detail, 8))
	return 1
}

func writeEvidence(prop, tier string, seed uint64, p *propDef, a *agg, nViol, nKnown int, wall time.Duration, planned int, infra []string) {
	a.mu.Lock()
	defer a.mu.Unlock()
	cov := map[string]any{
		"evaluations":                   a.evals,
		"distinct_nontrivial":           len(a.nontrivial),
		"rule":                          p.rule,
		"samples":                       a.samples,
		"planned_cases":                 planned,
		"distinct_event_log_hashes":     len(a.hashes),
		"distinct_adjacent_point_pairs": len(a.pairs),
		"scheduler_steps":               a.steps,
		"events":                        a.events,
		"simulated_seconds":             float64(a.simNs) / 1e9,
		"origin_requests":               a.requests,
		"runs_per_hour":                 float64(a.evals) / wall.Hours(),
		"faults_fired":                  a.faults,
		"probes":                        a.probes,
		"end_reasons":                   a.endReasons,
		"case_kinds":                    a.labels,
		"unnamed_actor_events":          a.anon,
		"infrastructure_failures":       len(infra),
		"known_findings_reported":       nKnown,
		"components":                    p.components,
	}
	if len(a.samples) == 0 {
		cov["samples"] = []any{"no run produced a record"}
	}
	ev := map[string]any{
		"property_id": prop,
		"tier":        tier,
		"seed":        int64(seed & 0x7fffffffffffffff),
		"level":       p.level,
		"coverage":    cov,
		"assumptions": p.assumptions,
		"wall_s":      wall.Seconds(),
		"violations":  nViol,
	}
	os.MkdirAll(filepath.Join(verifDir, "evidence"), 0o755)
	b, _ := json.MarshalIndent(ev, "", " ")
	os.WriteFile(filepath.Join(verifDir, "evidence", prop+".json"), b, 0o644)
}
