package sim

import (
	"fmt"
	"sort"
	"strings"

	realpause "github.com/internetarchive/Zeno/internal/pkg/controler/pause"
)

// oC14 judges the pause protocol on the real stage worker loops of a whole-pipeline run (the component simulation
// judges the manager against simulated workers of the same shape): a stage worker that has acknowledged a pause takes
// no new work until it has been resumed, a resume leaves nobody in the handshake, and a stop is never blocked by a pause.
type oC14 struct {
	r      *e2e
	acked  map[uint64]string // goroutine -> "stage worker" that acknowledged a pause and has not been resumed
	pauses int
}

func (o *oC14) Name() string { return "C14" }

func (o *oC14) OnEvent(k *Kernel, ev *Event) {
	stage := ev.Point
	if i := strings.IndexByte(stage, '.'); i > 0 {
		stage = stage[:i]
	}
	switch stage {
	case "pre", "arch", "post", "fin":
	default:
		if ev.Point == "pause.pause.broadcast" {
			o.pauses++
		}
		if ev.Point == "wwq.verdict" && len(ev.raw) > 2 {
			q, _ := ev.raw[0].(int)
			m, _ := ev.raw[1].(int)
			if p, _ := ev.raw[2].(bool); !p && q > m {
				k.Probe("c14-warc-queue-watchdog-pauses")
			}
		}
		return
	}
	switch {
	case strings.HasSuffix(ev.Point, ".pause.ack"):
		w := ""
		if len(ev.raw) > 0 {
			w, _ = ev.raw[0].(string)
		}
		o.acked[ev.goid] = stage + " worker " + w
		k.Probe("c14-stage-worker-acks")
	case strings.HasSuffix(ev.Point, ".resumed"), strings.HasSuffix(ev.Point, ".exit"):
		delete(o.acked, ev.goid)
	case ev.Point == stage+".recv":
		if w, ok := o.acked[ev.goid]; ok {
			k.Violate("C14", "paused-takes-no-work", "stage-worker-took-work-while-paused", fmt.Sprintf("%s took a new item (%s %v) after acknowledging the pause and before being resumed", w, ev.Point, ev.Args))
		}
	}
}

func (o *oC14) OnQuiescent(k *Kernel) {}

func (o *oC14) OnIdle(k *Kernel) {
	// the crawl has drained and every stage worker sits in its select: a Pause() or Resume() that has not returned by now never will
	for _, c := range o.r.ctl {
		switch c.a.Kind {
		case "pause", "resume", "resume-pause":
			if c.fired && !c.done {
				k.Violate("C14", "calls-return", "controller-call-blocked", fmt.Sprintf("controller action %q (%s) was issued and has not returned although the pipeline is idle; parked: %v", c.a.Name, c.a.Kind, k.ParkedSummary()))
			}
		}
	}
	if len(o.acked) > 0 && !realpause.IsPaused() {
		var who []string
		for _, w := range o.acked {
			who = append(who, w)
		}
		sort.Strings(who)
		k.Violate("C14", "resume-wakes-all", "stage-worker-not-woken", fmt.Sprintf("the pipeline is running and idle, but these stage workers still sit in the resume handshake: %v", who))
	}
}

func (o *oC14) OnEnd(k *Kernel) {
	if o.r.stopFired && !o.r.stopReturned && o.pauses > 0 && k.Now()-o.r.stopFiredAt > stopBound {
		k.Violate("C14", "calls-return", "shutdown-blocked-with-pause", fmt.Sprintf("%d pause(s) were broadcast in this run; controler.Stop() did not return within %v of simulated time; parked: %v", o.pauses, stopBound, k.ParkedSummary()))
	}
}
