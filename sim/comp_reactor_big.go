package sim

import (
	"fmt"
	"sync/atomic"
	"testing/synctest"

	realreactor "github.com/internetarchive/Zeno/internal/pkg/reactor"
	"github.com/internetarchive/Zeno/pkg/models"
)

func init() { compSims["reactorbig"] = simReactorBig }

// simReactorBig: the token-count dimension of C12 ("for all token counts"). Thousands of tokens, every seed in flight
// at once, a consumer that stops reading: what is decided here is whether calls block (quiescence of the bubble),
// not the interleaving, so the bulk phases run with the hooks passing through (the small-scale interleavings are
// the business of the "reactor" simulation on the statement-level instrumented copy).
func simReactorBig(cs *compState) {
	k := cs.k
	tokens := []int{3000, 8192, 8193, 8500, 12000, 20000, 66000}[cs.Draw(7)]
	cs.sample["tokens"] = tokens
	k.off.Store(true)
	out := make(chan *models.Item)
	if err := realreactor.Start(tokens, out); err != nil {
		k.Violate("C12", "start", "start-failed", err.Error())
		return
	}
	defer realreactor.Stop()
	items := make([]*models.Item, 0, tokens)
	got := make(chan struct{})
	go func() {
		for i := 0; i < tokens; i++ {
			items = append(items, <-out)
		}
		close(got)
	}()
	var accepted atomic.Int64
	go func() {
		for i := 0; i < tokens; i++ {
			if err := realreactor.ReceiveInsert(newSeed(fmt.Sprintf("b%d", i))); err == nil {
				accepted.Add(1)
			}
		}
	}()
	synctest.Wait()
	select {
	case <-got:
	default:
		k.Violate("C12", "output", "accepted-seed-not-delivered", fmt.Sprintf("%d tokens: %d inserts were accepted, only %d seeds reached a consumer that keeps reading, and nothing can run any more", tokens, accepted.Load(), len(items)))
		return
	}
	if n := len(realreactor.GetStateTable()); n != tokens {
		k.Violate("C12", "bounded", "table-differs-from-tokens-in-use", fmt.Sprintf("%d seeds accepted with %d tokens, the state table holds %d", accepted.Load(), tokens, n))
	}
	// one more insert must wait for a token: it is not accepted while every token is in use
	var extra atomic.Int64
	go func() {
		if err := realreactor.ReceiveInsert(newSeed("extra")); err == nil {
			extra.Add(1)
		}
	}()
	synctest.Wait()
	if extra.Load() != 0 {
		k.Violate("C12", "bounded", "more-in-flight-than-tokens", fmt.Sprintf("%d tokens, all in use, and one more insert was accepted", tokens))
	}
	// nobody reads the output any more: feeding every tracked seed back must still return
	var fed atomic.Int64
	for w := 0; w < 2; w++ {
		go func() {
			for i := w; i < len(items); i += 2 {
				if err := realreactor.ReceiveFeedback(items[i]); err == nil {
					fed.Add(1)
				}
			}
		}()
	}
	synctest.Wait()
	if int(fed.Load()) != tokens {
		k.Violate("C12", "feedback", "feedback-blocked", fmt.Sprintf("%d tokens, every seed tracked and handed out, no consumer reading: only %d of %d ReceiveFeedback calls for tracked seeds returned", tokens, fed.Load(), tokens))
		return
	}
	// a consumer comes back, finishes everything: the table empties, the waiting insert gets its token
	done := make(chan struct{})
	var finErr atomic.Int64
	go func() {
		for i := 0; i < tokens; i++ {
			if err := realreactor.MarkAsFinished(<-out); err != nil {
				finErr.Add(1)
			}
		}
		it := <-out // the insert that was waiting
		if realreactor.MarkAsFinished(it) != nil {
			finErr.Add(1)
		}
		close(done)
	}()
	synctest.Wait()
	select {
	case <-done:
	default:
		k.Violate("C12", "progress", "reactor-deadlock", fmt.Sprintf("%d tokens: after the consumer resumed, not every fed-back seed (and the insert waiting for a token) came out again", tokens))
		return
	}
	if finErr.Load() != 0 || len(realreactor.GetStateTable()) != 0 {
		k.Violate("C12", "bounded", "table-not-empty-after-all-finished", fmt.Sprintf("%d tokens: %d finish errors, state table %d", tokens, finErr.Load(), len(realreactor.GetStateTable())))
	}
	k.Probe("c12-many-token-runs")
}
