package sim

import (
	"bufio"
	"encoding/json"
	"fmt"
	"io"
	"os"
	"path/filepath"
	"sort"
	"strings"
	"syscall"

	"github.com/internetarchive/Zeno/verifsim/scen"
)

// ---------------------------------------------------------------- C03

type oC03 struct {
	r        *e2e
	lastStep string // the stop step controler.Stop() reached last
}

func (o *oC03) Name() string { return "C03" }
func (o *oC03) OnEvent(k *Kernel, ev *Event) {
	if ev.Point == "stop.step" && len(ev.raw) > 0 {
		o.lastStep, _ = ev.raw[0].(string)
	}
}
func (o *oC03) OnQuiescent(k *Kernel)        {}

func (o *oC03) OnEnd(k *Kernel) {
	r := o.r
	if !r.stopFired {
		return
	}
	if !r.stopReturned {
		where := "blocked in stop step " + o.lastStep
		if r.sc.Cfg.UseHQ && persistentFaults(r.sc) {
			where += " with crawl HQ down"
		}
		k.Violate("C03", "stop-returns", "stop-blocked", fmt.Sprintf("controler.Stop() did not return within %v of simulated time after the stop request (end=%s, %s); parked: %v; pause state: %s", stopBound, k.endReason, where, k.ParkedSummary(), r.pauseState()))
		return
	}
	idx := NewWarcIndex(filepath.Join(r.jobPath, "warcs"))
	idx.Scan()
	if open := idx.OpenFiles(); len(open) > 0 {
		k.Violate("C03", "warc-final", "open-file-left", fmt.Sprintf("after Stop() returned these WARC files still carry .open: %v", open))
	}
	for _, e := range idx.Errs {
		k.Violate("C03", "warc-final", "malformed-record", e)
	}
	for f, e := range idx.TailErr {
		k.Violate("C03", "warc-final", "incomplete-record", f+": "+e)
	}
	// record pairs: every response/revisit has a request record for the same target in the output
	reqs := map[string]int{}
	for _, rec := range idx.Recs {
		if rec.Type == "request" {
			reqs[rec.TargetKey]++
		}
	}
	resps := map[string]int{}
	for _, rec := range idx.Recs {
		if rec.Type == "response" || rec.Type == "revisit" {
			resps[rec.TargetKey]++
		}
	}
	for key, n := range resps {
		if reqs[key] < n {
			k.Violate("C03", "warc-final", "record-pair-broken", fmt.Sprintf("%s: %d response/revisit record(s) but %d request record(s)", key, n, reqs[key]))
		}
	}
	k.Probes["c03-records-after-stop"] = len(idx.Recs)
	files := map[string]bool{}
	for _, rec := range idx.Recs {
		files[rec.File] = true
	}
	if len(files) > r.sc.Cfg.PoolSize && len(files) > 1 {
		k.Probe("warc-rotation-runs") // more final files than writers: at least one writer rotated
	}
}

func (r *e2e) pauseState() string {
	var parts []string
	for _, c := range r.ctl {
		if c.a.Kind == "pause" || c.a.Kind == "resume" {
			parts = append(parts, fmt.Sprintf("%s(fired=%v done=%v)", c.a.Name, c.fired, c.done))
		}
	}
	return strings.Join(parts, " ")
}

// ---------------------------------------------------------------- exchange persistence (used by C04 across processes)

type exchRec struct {
	Seed      string `json:"seed"`
	Key       string `json:"key"`
	URL       string `json:"url"`
	Attempt   int    `json:"attempt"`
	Status    int    `json:"status"`
	Complete  bool   `json:"complete"`
	SHA1      string `json:"sha1"`
	Len       int    `json:"len"`
	Discarded bool   `json:"discarded"`
	Err       bool   `json:"err"`
}

type exchWriter struct {
	r    *e2e
	t    *tracker
	c02  *oC02
	f    *os.File
	done map[*exchange]bool
}

func (w *exchWriter) Name() string { return "exch" }
func (w *exchWriter) OnEvent(k *Kernel, ev *Event) {
	// an exchange is final when the fetch goroutine reports archived / failed
	if ev.Point != "fetch.archived" && ev.Point != "fetch.failed" && ev.Point != "fetch.retry.sleep" {
		return
	}
	ex := w.t.current[ev.Actor]
	if ex == nil || w.done[ex] || ex.entry == nil {
		return
	}
	w.done[ex] = true
	rec := exchRec{Seed: ex.seed, Key: ex.key, URL: ex.url, Attempt: ex.entry.Attempt, Status: ex.entry.Status, Complete: ex.entry.Complete, SHA1: ex.entry.BodySHA1, Len: ex.entry.BodyLen, Err: ex.err}
	rec.Discarded = w.c02.discarded(ex)
	b, _ := json.Marshal(rec)
	w.f.Write(append(b, '\n'))
}
func (w *exchWriter) OnQuiescent(k *Kernel) {}
func (w *exchWriter) OnEnd(k *Kernel)       {}

func readJSONL[T any](path string) []T {
	f, err := os.Open(path)
	if err != nil {
		return nil
	}
	defer f.Close()
	var out []T
	br := bufio.NewReaderSize(f, 1<<20)
	for {
		line, err := br.ReadBytes('\n')
		if len(line) > 1 {
			var v T
			if json.Unmarshal(line, &v) == nil {
				out = append(out, v)
			}
		}
		if err != nil {
			break
		}
	}
	return out
}

// ---------------------------------------------------------------- C04 (restart phase)

// oC04 runs in the second process. Before the pipeline starts it inspects what
// the first process left behind; at idle it checks that everything unfinished was crawled again.
type oC04 struct {
	r          *e2e
	t          *tracker
	unfinished []map[string]string // rows present in lq.db when this process started
	seenBefore map[string]bool     // URLs the first process recorded in the seen-store
	checked    bool
}

func (o *oC04) Name() string { return "C04" }

// Before is called before controler.Start() in the restart phase.
func (o *oC04) Before(k *Kernel) {
	r := o.r
	rows, err := QueueRows(r.jobPath)
	if err != nil {
		k.Violate("C04", "queue-readable", "queue-db-unreadable", err.Error())
		return
	}
	o.unfinished = rows
	remaining := map[string]bool{}
	for _, row := range rows {
		remaining[row["value"]] = true
	}
	// (c) WARC files left by the first process: complete members up to the tail
	idx := NewWarcIndex(filepath.Join(r.jobPath, "warcs"))
	idx.Scan()
	for _, e := range idx.Errs {
		k.Violate("C04", "warc-readable", "malformed-record", e)
	}
	for f, e := range idx.TailErr {
		k.Probe("c04-torn-tail")
		isOpen := false
		for _, of := range idx.OpenFiles() {
			if strings.TrimSuffix(of, ".open") == f {
				isOpen = true
			}
		}
		if !isOpen {
			k.Violate("C04", "warc-readable", "torn-record-in-final-file", f+": "+e)
		}
	}
	// (b) finished (= row deleted) implies captured
	started := map[string]bool{}
	for _, ev := range readJSONL[scen.Event](filepath.Join(r.in.JobDir, "events.0.jsonl")) {
		if ev.Point == "lq.sender.recv" && len(ev.Args) > 0 {
			started[ev.Args[0]] = true
		}
		if ev.Point == "seen.recorded" && len(ev.Args) > 0 {
			u := seedArg(ev.Args[0])
			if i := strings.IndexByte(u, ' '); i > 0 && strings.HasPrefix(u, "d") {
				u = u[i+1:]
			}
			if o.seenBefore == nil {
				o.seenBefore = map[string]bool{}
			}
			o.seenBefore[u] = true
		}
	}
	exs := readJSONL[exchRec](filepath.Join(r.in.JobDir, "exch.0.jsonl"))
	nChecked := 0
	for _, ex := range exs {
		if remaining[ex.Seed] || !started[ex.Seed] {
			continue // seed not reported finished to the queue
		}
		if ex.Err || !ex.Complete || ex.Status == 0 || ex.Discarded {
			continue
		}
		found := false
		for _, rec := range idx.Recs {
			if rec.TargetKey != ex.Key {
				continue
			}
			if rec.Type == "response" && rec.PayloadSHA == ex.SHA1 && rec.PayloadLen == ex.Len {
				found = true
			}
			if rec.Type == "revisit" && rec.DigestHdr == ex.SHA1 {
				found = true
			}
		}
		nChecked++
		if !found {
			k.Violate("C04", "finished-implies-captured", "finished-seed-capture-missing", fmt.Sprintf("row %s was deleted from the queue (reported finished) but the capture of %s (attempt %d, status %d, sha1 %s) is not in the WARC files left on disk", ex.Seed, ex.URL, ex.Attempt, ex.Status, ex.SHA1))
		}
	}
	// a finished row whose origin answers a plain 200 (no fault planned for it or for its host) has a capture: the only party
	// that could have failed that fetch is the crawler itself, e.g. by tearing it down at stop and reporting the seed finished
	for v := range started {
		if remaining[v] {
			continue
		}
		key := uriKey(v)
		res := r.sc.Site[key]
		if res == nil || len(res.Resp) == 0 || res.Resp[0].Status != 200 || res.Resp[0].Fault != "" || res.Expect == scen.Never || res.Expect == scen.May {
			continue
		}
		if hp := r.sc.Hosts[hostOfKey(key)]; hp != nil {
			continue
		}
		discarded := false
		for _, st := range r.sc.Cfg.DiscardStatus {
			if st == 200 {
				discarded = true
			}
		}
		if discarded {
			continue
		}
		found := false
		for _, rec := range idx.Recs {
			if rec.TargetKey == key && (rec.Type == "response" || rec.Type == "revisit") {
				found = true
			}
		}
		k.Probe("c04-finished-healthy-seeds-checked")
		if !found {
			k.Violate("C04", "finished-implies-captured", "finished-seed-without-any-capture", fmt.Sprintf("row %s was deleted from the queue (reported finished); its origin answers a plain 200 and no fault was injected for it, yet the WARC files hold no response record for it", v))
		}
	}
	k.Probes["c04-finished-captures-checked"] = nChecked
	k.Probes["c04-rows-left-by-first-process"] = len(rows)
	for _, row := range rows {
		if row["status"] == "CLAIMED" {
			k.Probe("c04-claimed-rows-at-restart")
		}
	}
}

func (o *oC04) OnEvent(k *Kernel, ev *Event) {}
func (o *oC04) OnQuiescent(k *Kernel)        {}

func (o *oC04) OnIdle(k *Kernel) {
	if o.checked {
		return
	}
	o.checked = true
	r := o.r
	// (a) everything that was unfinished is taken again, crawled again, and ends deleted
	reqd := map[string]bool{}
	for _, e := range r.net.Snapshot() {
		reqd[e.Key] = true
	}
	var notTaken, notCrawled, skippedSeen []string
	for _, row := range o.unfinished {
		v := row["value"]
		if o.t.taken[v] == 0 {
			notTaken = append(notTaken, v+"("+row["status"]+")")
			continue
		}
		key := uriKey(v)
		if res := r.sc.Site[key]; res != nil && res.Expect != scen.Never && !reqd[key] {
			if r.sc.Cfg.Seencheck && o.seenBefore[v] {
				skippedSeen = append(skippedSeen, v)
			} else {
				notCrawled = append(notCrawled, v)
			}
		}
	}
	if len(notTaken) > 0 {
		sort.Strings(notTaken)
		k.Violate("C04", "resumed", "unfinished-row-not-resumed", fmt.Sprintf("after restart the crawl went idle but these queue rows were never handed out again: %v", notTaken))
	}
	if len(skippedSeen) > 0 {
		sort.Strings(skippedSeen)
		k.Violate("C04", "resumed", "unfinished-url-skipped-as-seen-after-restart", fmt.Sprintf("seencheck is on: these rows were unfinished when the first process died, their URL had already been recorded as seen, and after restart they were handed out but skipped as seen instead of being crawled: %v", skippedSeen))
	}
	if len(notCrawled) > 0 {
		sort.Strings(notCrawled)
		k.Violate("C04", "resumed", "unfinished-url-not-crawled-again", fmt.Sprintf("rows handed out again after restart but never requested: %v", notCrawled))
	}
}

func (o *oC04) OnEnd(k *Kernel) {
	if !o.r.stopReturned {
		return
	}
	rows, err := QueueRows(o.r.jobPath)
	if err != nil {
		return
	}
	var stranded []string
	for _, row := range rows {
		if row["status"] == "CLAIMED" {
			stranded = append(stranded, row["value"])
		}
	}
	if len(stranded) > 0 && o.checked {
		k.Violate("C04", "resumed", "row-left-claimed", fmt.Sprintf("after the restarted crawl drained and stopped gracefully, rows are still marked handed-out: %v", stranded))
	}
	o.r.summary["rows_after_restart"] = len(rows)
}

func hostOfKey(key string) string {
	if i := strings.IndexByte(key, '/'); i >= 0 {
		return key[:i]
	}
	return key
}

// ---------------------------------------------------------------- kill on the k-th WARC write

type killWriter struct {
	r *e2e
	f *os.File
}

func (w *killWriter) Write(p []byte) (int, error) {
	r := w.r
	r.wmu.Lock()
	r.warcWrites++
	seq := r.warcWrites
	r.wmu.Unlock()
	if r.parkWarcWrites {
		// the scheduler decides when each write(2) to a WARC file happens
		r.k.Park(fmt.Sprintf("warc.write#%05d", seq), "warc.write") // the size is not logged: compressed lengths depend on random record ids
	}
	if r.killAtWrite > 0 && r.warcWrites == r.killAtWrite {
		n := len(p)
		if r.killTorn >= 0 && r.killTorn < n {
			n = r.killTorn
		}
		w.f.Write(p[:n])
		r.k.Fault("kill-at-warc-write")
		r.rec.EndReason = "killed"
		r.writeRecord()
		syscall.Kill(os.Getpid(), syscall.SIGKILL)
		select {}
	}
	return w.f.Write(p)
}

var _ io.Writer = (*killWriter)(nil)
