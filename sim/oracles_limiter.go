package sim

import (
	"fmt"
	"time"
)

// oC13 judges the back-off clause on the whole pipeline (the component simulation judges the limiter itself): the
// archiver reports a throttling status for host H (as it appears in the request URL, port included); once that report
// has returned, and as long as H's bucket has not been dropped from the table, a fetch that enters the limiter for H
// afterwards is not released before the minimum penalty of 5 s has elapsed.
type oC13 struct {
	r         *e2e
	reporting map[string]string // fetch actor -> host of the report in progress ("" once H's bucket was dropped meanwhile)
	reportT   map[string]int64  // fetch actor -> simulated time at which that report was issued (the penalty runs from no earlier than this)
	failRet   map[string]*Event // host -> event that marks the return of the latest throttling report
	waitAfter map[string]*Event // fetch actor -> report its Wait was entered after
	hostOf    map[string]string
}

func newOC13(r *e2e) *oC13 {
	return &oC13{r: r, reporting: map[string]string{}, failRet: map[string]*Event{}, waitAfter: map[string]*Event{}, hostOf: map[string]string{}, reportT: map[string]int64{}}
}

func (o *oC13) Name() string { return "C13" }

func (o *oC13) OnEvent(k *Kernel, ev *Event) {
	if !o.r.sc.Cfg.RateLimit {
		return
	}
	switch ev.Point {
	case "fetch.limiter.failure":
		if len(ev.raw) > 3 {
			host, _ := ev.raw[2].(string)
			st, _ := ev.raw[3].(int)
			if st == 429 || st == 403 || st == 408 || st == 425 {
				o.reporting[ev.Actor] = host
				o.reportT[ev.Actor] = ev.T
			}
		}
	case "fetch.retry.sleep", "fetch.failed":
		// the first event of this fetch after AdjustOnFailure has returned
		if host, ok := o.reporting[ev.Actor]; ok {
			if host != "" {
				// ordering is judged from this event on (the report has returned), the 5 s from the moment the report was issued
				// (between the two the fetch may have waited for its WARC write)
				cp := *ev
				cp.T = o.reportT[ev.Actor]
				o.failRet[host] = &cp
				k.Probe("c13-throttling-reports")
			}
			delete(o.reporting, ev.Actor)
		}
	case "rl.bucket.evict", "rl.bucket.cleanup":
		if len(ev.raw) > 0 {
			host, _ := ev.raw[0].(string)
			delete(o.failRet, host)
			for a, h := range o.reporting {
				if h == host {
					o.reporting[a] = ""
				}
			}
			for a, h := range o.hostOf {
				if h == host {
					delete(o.waitAfter, a)
				}
			}
		}
	case "rl.wait.enter":
		delete(o.waitAfter, ev.Actor)
		if len(ev.raw) > 0 {
			host, _ := ev.raw[0].(string)
			o.hostOf[ev.Actor] = host
			if f := o.failRet[host]; f != nil && ev.Step > f.Step {
				o.waitAfter[ev.Actor] = f
			}
		}
	case "rl.take":
		if f := o.waitAfter[ev.Actor]; f != nil {
			k.Probe("c13-fetches-entering-the-limiter-after-a-throttle")
			if ev.T < f.T+int64(5*time.Second) {
				k.Violate("C13", "penalty", "release-during-penalty", fmt.Sprintf("pipeline: a throttling status from %s was reported to the limiter (report returned at t=%v), the host's bucket was not dropped since, yet a fetch that entered the limiter afterwards was released at t=%v, before the minimum penalty of 5s", o.hostOf[ev.Actor], time.Duration(f.T), time.Duration(ev.T)))
			}
			delete(o.waitAfter, ev.Actor)
		}
	}
}
func (o *oC13) OnQuiescent(k *Kernel) {}
func (o *oC13) OnEnd(k *Kernel)       {}
