package sim

import (
	"crypto/sha256"
	"encoding/hex"
	"encoding/json"
	"fmt"
	"hash/fnv"
	"os"
	"runtime"
	"sort"
	"strings"
	"sync"
	"sync/atomic"
	"testing/synctest"
	"time"

	"github.com/internetarchive/Zeno/verifsim/scen"
)

// Event is one entry of the canonical event log plus run-local data.
type Event struct {
	scen.Event
	raw  []any
	goid uint64
	sub  int // arrival order within (quantum, goroutine)
}

type parkedG struct {
	ev      *Event
	release chan struct{}
}

// Oracle observes the canonical event stream and the quiescent states.
type Oracle interface {
	Name() string
	OnEvent(k *Kernel, ev *Event)
	OnQuiescent(k *Kernel)
	OnEnd(k *Kernel)
}

type Kernel struct {
	mu       sync.Mutex
	tape     *Tape
	start    time.Time
	step     int
	pending  []*Event
	parked   []*parkedG
	arrival  chan struct{}
	actorOf  map[uint64]string // goid -> last named actor
	subOf    map[uint64]int
	off      atomic.Bool // hooks pass through (drain / shutdown)
	names    *Names
	resolver func(k *Kernel, goid uint64, point string, args []any) string

	Oracles    []Oracle
	Violations []Violation
	Probes     map[string]int
	PointCount map[string]int
	Faults     map[string]int

	hash      [32]byte
	nEvents   int
	logFile   *os.File
	keepLog   bool
	Log       []*scen.Event
	lastBusy  time.Duration
	idleFn    func(ev *Event) bool
	halfNow   time.Duration
	rootGoid  uint64
	pairs     map[string]struct{}
	lastPoint string
	anon      int
	stopRun   bool
	endReason string

	MaxSteps   int
	MaxSimTime time.Duration

	// Scheduler policy knobs (scenario level)
	AdvanceWeight int // 1 in (len(P)*ReleaseWeight+AdvanceWeight)
	ReleaseWeight int
	FIFO          bool

	// Starvation bias, drawn once per run: one class of goroutines (by hook-point family, or a pseudo-random
	// subset of actors) is released 8x or 64x less often than the others, so that orderings which need one
	// party to lag far behind (a slow WARC writer, a slow queue sender) are reached with useful probability.
	LazyClock  bool
	lazySet    bool
	slowInit   bool
	slowPrefix string
	slowSel    int // -1: none; otherwise actors with fnv(actor)%5 == slowSel
	slowDiv    int
}

var slowClasses = []string{"warc.write", "lq.fin", "lq.prod", "lq.sender", "lq.fetch", "hq.fin", "hq.prod", "hq.", "fin.", "post.", "arch.", "fetch.", "pre.", "reactor.", "origin.", "pause.", "disk.", "rl."}

func (k *Kernel) initSlow() {
	k.slowInit = true
	k.slowSel = -1
	// lazy clock (a quarter of the runs): simulated time passes only when no busy goroutine is parked, as on a machine
	// that is fast compared with every timer. Bursts then fit inside one timer period (size-triggered batches, several
	// requests inside one limiter window), which the default mix of releases and clock advances almost never produces.
	if !k.lazySet {
		k.LazyClock = k.tape.DrawSched(4) == 0
		if k.LazyClock {
			k.logSched("lazy-clock", "")
		}
	}
	if k.LazyClock {
		k.Probe("sched-lazy-clock-runs")
	}
	switch k.tape.DrawSched(4) {
	case 2:
		k.slowDiv = 8
	case 3:
		k.slowDiv = 64
	default:
		return
	}
	c := k.tape.DrawSched(len(slowClasses) + 5)
	if c < len(slowClasses) {
		k.slowPrefix = slowClasses[c]
	} else {
		k.slowSel = c - len(slowClasses)
	}
	k.logSched("slow", fmt.Sprintf("%s/%d 1/%d", k.slowPrefix, k.slowSel, k.slowDiv))
	k.Probe("sched-starved-class-runs")
}

// SetSlow fixes the starvation bias for this run (planned cases).
func (k *Kernel) SetSlow(prefix string, div int) {
	if div <= 1 {
		div = 64
	}
	if !k.lazySet {
		k.LazyClock, k.lazySet = k.tape.DrawSched(4) == 0, true
	}
	k.slowInit, k.slowPrefix, k.slowSel, k.slowDiv = true, prefix, -1, div
	k.Probe("sched-starved-class-runs")
	if k.LazyClock {
		k.Probe("sched-lazy-clock-runs")
	}
	if strings.HasPrefix(prefix, "~") {
		// "~n": a pseudo-random fifth of the actors (every WARC write is an actor of its own, so this delays some writes and not others)
		k.slowPrefix = ""
		fmt.Sscan(prefix[1:], &k.slowSel)
	}
}

func (k *Kernel) weightOf(pg *parkedG) int {
	w := k.ReleaseWeight * 64
	if k.slowDiv == 0 {
		return w
	}
	slow := false
	if k.slowPrefix != "" {
		slow = strings.HasPrefix(pg.ev.Point, k.slowPrefix)
	} else if k.slowSel >= 0 {
		h := fnv.New32a()
		h.Write([]byte(pg.ev.Actor))
		slow = int(h.Sum32()%5) == k.slowSel
	}
	if slow {
		return w / k.slowDiv
	}
	return w
}

var advanceQuanta = []time.Duration{time.Millisecond, 50 * time.Millisecond, 250 * time.Millisecond, time.Second, 5 * time.Second, 30 * time.Second}

func NewKernel(tape *Tape) *Kernel {
	k := &Kernel{
		rootGoid:      runtime.SimGoid(),
		tape:          tape,
		start:         time.Now(),
		arrival:       make(chan struct{}, 1),
		actorOf:       map[uint64]string{},
		subOf:         map[uint64]int{},
		names:         NewNames(),
		Probes:        map[string]int{},
		PointCount:    map[string]int{},
		Faults:        map[string]int{},
		pairs:         map[string]struct{}{},
		MaxSteps:      20000,
		MaxSimTime:    2 * time.Hour,
		AdvanceWeight: 1,
		ReleaseWeight: 4,
	}
	return k
}

func (k *Kernel) Now() time.Duration { return time.Since(k.start) }

// SetActor names the calling goroutine (used by simulator-owned goroutines).
func (k *Kernel) SetActor(name string) {
	g := runtime.SimGoid()
	k.mu.Lock()
	k.actorOf[g] = name
	k.mu.Unlock()
}

// Handle is installed as verifhook.Handler.
func (k *Kernel) Handle(point string, park bool, args []any) {
	if k.off.Load() {
		return
	}
	goid := runtime.SimGoid()
	k.mu.Lock()
	actor := k.resolver(k, goid, point, args)
	ev := &Event{Event: scen.Event{Actor: actor, Point: point, Park: park}, raw: args, goid: goid, sub: k.subOf[goid]}
	k.subOf[goid]++
	k.pending = append(k.pending, ev)
	var rel chan struct{}
	if park {
		rel = make(chan struct{})
		k.parked = append(k.parked, &parkedG{ev: ev, release: rel})
	}
	k.mu.Unlock()
	if rel != nil {
		select {
		case k.arrival <- struct{}{}:
		default:
		}
		<-rel
	}
}

// Park lets simulator-owned goroutines (origin servers, controllers) take part in scheduling.
func (k *Kernel) Park(actor, point string, args ...any) {
	k.SetActor(actor)
	k.Handle(point, true, args)
}

// Note records an observation from a simulator-owned goroutine.
func (k *Kernel) Note(actor, point string, args ...any) {
	k.SetActor(actor)
	k.Handle(point, false, args)
}

func (k *Kernel) Violate(prop, oracle, sig, detail string) {
	if k.off.Load() && runtime.SimGoid() != k.rootGoid {
		// the run is over and the hooks pass through (teardown): what simulated actors observe while everything is being
		// released un-scheduled is not a judgement about the system
		k.mu.Lock()
		k.Probes["judgements-skipped-during-teardown"]++
		k.mu.Unlock()
		return
	}
	k.Violations = append(k.Violations, Violation{Property: prop, Oracle: oracle, Signature: sig, Detail: detail, Step: k.step, T: int64(k.Now())})
}

func (k *Kernel) Probe(name string) { k.Probes[name]++ }
func (k *Kernel) Fault(name string) {
	k.mu.Lock()
	k.Faults[name]++
	k.mu.Unlock()
}

// flush canonicalises the events of the quantum that just ended and feeds the oracles.
func (k *Kernel) flush() {
	k.mu.Lock()
	evs := k.pending
	k.pending = nil
	k.subOf = map[uint64]int{}
	k.mu.Unlock()
	if len(evs) == 0 {
		return
	}
	k.mu.Lock()
	k.names.ResolvePending(evs, k.actorOf)
	k.mu.Unlock()
	sort.SliceStable(evs, func(i, j int) bool {
		if evs[i].Actor != evs[j].Actor {
			return evs[i].Actor < evs[j].Actor
		}
		return evs[i].sub < evs[j].sub
	})
	now := int64(k.Now())
	var sb strings.Builder
	for _, ev := range evs {
		ev.Step = k.step
		ev.T = now
		ev.Args = k.names.CanonArgs(ev.Point, ev.raw)
		if strings.HasPrefix(ev.Actor, "g?:") {
			k.anon++
		}
		b, _ := json.Marshal(&ev.Event)
		h := sha256.New()
		h.Write(k.hash[:])
		h.Write(b)
		copy(k.hash[:], h.Sum(nil))
		k.nEvents++
		sb.Write(b)
		sb.WriteByte('\n')
		if k.keepLog {
			k.Log = append(k.Log, &ev.Event)
		}
		if ev.Actor != "!sched" {
			k.PointCount[ev.Point]++
		}
		pair := k.lastPoint + ">" + ev.Point
		k.pairs[pair] = struct{}{}
		k.lastPoint = ev.Point
		if k.idleFn == nil || !k.idleFn(ev) {
			k.lastBusy = time.Duration(now)
		}
		for _, o := range k.Oracles {
			o.OnEvent(k, ev)
		}
	}
	if k.logFile != nil {
		k.logFile.WriteString(sb.String())
	}
}

func (k *Kernel) HashHex() string { return hex.EncodeToString(k.hash[:]) }

func (k *Kernel) sortedParked() []*parkedG {
	k.mu.Lock()
	p := append([]*parkedG(nil), k.parked...)
	k.mu.Unlock()
	sort.SliceStable(p, func(i, j int) bool {
		if p[i].ev.Actor != p[j].ev.Actor {
			return p[i].ev.Actor < p[j].ev.Actor
		}
		return p[i].ev.Point < p[j].ev.Point
	})
	return p
}

func (k *Kernel) removeParked(pg *parkedG) {
	k.mu.Lock()
	for i, x := range k.parked {
		if x == pg {
			k.parked = append(k.parked[:i], k.parked[i+1:]...)
			break
		}
	}
	k.mu.Unlock()
}

// ParkedSummary lists "actor@point" for every parked goroutine.
func (k *Kernel) ParkedSummary() []string {
	var out []string
	for _, p := range k.sortedParked() {
		out = append(out, p.ev.Actor+"@"+p.ev.Point)
	}
	return out
}

func (k *Kernel) allIdle(P []*parkedG) bool {
	for _, p := range P {
		if !k.idleFn(p.ev) {
			return false
		}
	}
	return true
}

// IdleFor reports for how long only idle-class events happened.
func (k *Kernel) IdleFor() time.Duration { return k.Now() - k.lastBusy }

// OnlyIdleParked reports whether every parked goroutine sits at an idle-class point.
func (k *Kernel) OnlyIdleParked() bool {
	for _, p := range k.sortedParked() {
		if k.idleFn == nil || !k.idleFn(p.ev) {
			return false
		}
	}
	return true
}

// Spun reports whether the second half of the step budget was spent without simulated time passing
// (a livelock: under the rule that the clock stands still while a goroutine sits at a statement-level
// yield, a fair schedule that burns steps at one instant is spinning). A run that merely ran out of
// steps while time was passing is inconclusive, never a violation.
func (k *Kernel) Spun() bool { return k.step >= k.MaxSteps && k.halfNow > 0 && k.Now() == k.halfNow }

func (k *Kernel) End(reason string) {
	k.stopRun = true
	if k.endReason == "" {
		k.endReason = reason
	}
}

// Run is the quantum loop. hook is called at every quiescent point after the
// oracles (controllers live there). It returns the reason the loop ended.
func (k *Kernel) Run(hook func()) string {
	for {
		synctest.Wait()
		select {
		case <-k.arrival:
		default:
		}
		k.flush()
		for _, o := range k.Oracles {
			o.OnQuiescent(k)
		}
		if hook != nil {
			hook()
			// the hook may have started controller goroutines: let them reach their first park
			// before the parked set is read (otherwise the set depends on real scheduling)
			synctest.Wait()
		}
		if k.stopRun {
			return k.endReason
		}
		if k.step >= k.MaxSteps {
			return "max-steps"
		}
		if k.Now() >= k.MaxSimTime {
			return "max-sim-time"
		}
		k.step++
		if k.step == k.MaxSteps/2 {
			k.halfNow = k.Now()
		}
		P := k.sortedParked()
		if len(P) == 0 {
			k.advance(30 * time.Second)
			continue
		}
		if k.idleFn != nil && !k.allIdle(P) {
			// work is parked (possibly starved for a long simulated time): the idle clock starts only once it has been
			// released and has had the chance to go to sleep on a timer
			k.lastBusy = k.Now()
		}
		if k.idleFn != nil && k.allIdle(P) {
			// independent idle pollers: release them together, no choice to record
			runtime.SimSetBias(1)
			for _, pg := range P {
				k.removeParked(pg)
				close(pg.release)
			}
			continue
		}
		var idx int
		if k.FIFO {
			idx = 0
			k.tape.Draw(1)
		} else {
			advW := k.AdvanceWeight
			if !k.slowInit {
				k.initSlow()
			}
			if k.LazyClock {
				for _, pg := range P {
					if k.idleFn == nil || !k.idleFn(pg.ev) {
						advW = 0
						break
					}
				}
			}
			for _, pg := range P {
				if pg.ev.Point == "sim.yield" {
					// a statement-level yield models an instantaneous preemption, not a sleep: the clock stands still
					advW = 0
					break
				}
			}
			if !k.slowInit {
				k.initSlow()
			}
			relTotal, maxW := 0, 0
			for _, pg := range P {
				w := k.weightOf(pg)
				relTotal += w
				maxW = max(maxW, w)
			}
			// the starved class lags behind the other goroutines, not behind the clock: when only starved goroutines are
			// parked, releasing one against letting time pass has the same odds as without the bias (otherwise every
			// "within N simulated minutes" bound would be broken by the scheduler, not by the system)
			d := k.tape.DrawSched(relTotal + advW*maxW/max(1, k.ReleaseWeight))
			if d >= relTotal {
				q := advanceQuanta[k.tape.DrawSched(len(advanceQuanta))]
				k.logSched("advance", q.String())
				k.advance(q)
				continue
			}
			for i, pg := range P {
				w := k.weightOf(pg)
				if d < w {
					idx = i
					break
				}
				d -= w
			}
		}
		bias := uint64(1 + k.tape.Draw(1<<16))
		runtime.SimSetBias(bias)
		pg := P[idx]
		k.removeParked(pg)
		k.logSched("release", pg.ev.Actor+"@"+pg.ev.Point)
		close(pg.release)
	}
}

func (k *Kernel) logSched(kind, what string) {
	k.mu.Lock()
	k.pending = append(k.pending, &Event{Event: scen.Event{Actor: "!sched", Point: kind}, raw: []any{what}, sub: -1})
	k.mu.Unlock()
}

func (k *Kernel) advance(q time.Duration) {
	tm := time.NewTimer(q)
	select {
	case <-k.arrival:
		tm.Stop()
	case <-tm.C:
	}
}

// Drain switches the hooks off and releases everything that is parked, so the
// system under test can run to completion un-scheduled (used for shutdown only).
func (k *Kernel) Drain() {
	k.off.Store(true)
	k.mu.Lock()
	p := k.parked
	k.parked = nil
	k.mu.Unlock()
	for _, x := range p {
		close(x.release)
	}
}

func (k *Kernel) Pairs() int { return len(k.pairs) }
func (k *Kernel) PairList() []string {
	out := make([]string, 0, len(k.pairs))
	for p := range k.pairs {
		out = append(out, p)
	}
	sort.Strings(out)
	return out
}
func (k *Kernel) Events() int    { return k.nEvents }
func (k *Kernel) Steps() int     { return k.step }
func (k *Kernel) AnonCount() int { return k.anon }

func (k *Kernel) String() string {
	return fmt.Sprintf("step=%d t=%v events=%d parked=%v", k.step, k.Now(), k.nEvents, k.ParkedSummary())
}
