package sim

func installHQ(r *e2e) {}
