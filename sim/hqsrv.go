package sim

import (
	"bufio"
	"context"
	"encoding/json"
	"fmt"
	"io"
	"net"
	"net/http"
	"strconv"
	"strings"
	"sync"

	"github.com/gobwas/ws"
	"github.com/gobwas/ws/wsutil"
	"github.com/internetarchive/gocrawlhq"
)

const hqHost = "10.99.0.1"

type hqRow struct {
	ID, Value, Via, Path, Status string
}

// HQCall is one REST call as the simulated crawl HQ saw it.
type HQCall struct {
	Seq     int               `json:"seq"`
	Step    int               `json:"step"`
	Kind    string            `json:"kind"` // get add delete seencheck reset
	N       int               `json:"n"`
	Fault   string            `json:"fault,omitempty"`
	Applied bool              `json:"applied"`
	Lost    bool              `json:"lost,omitempty"`     // applied but the client never got the answer
	URLs    []gocrawlhq.URL   `json:"urls,omitempty"`     // payload received
	Out     []gocrawlhq.URL   `json:"returned,omitempty"` // what was returned
	Arg     string            `json:"arg,omitempty"`
	Prior   map[string]string `json:"prior,omitempty"` // seencheck: how the store had seen each URL before this call
}

// HQModel is the stateful crawl-HQ service of the simulation.
type HQModel struct {
	r      *e2e
	mu     sync.Mutex
	rows   []*hqRow
	seen   map[string]string // URL -> "asset" | "seed": how the store has seen it so far (a seed / redirect target whose URL was only seen as an asset is new)
	nextID int
	counts map[string]int
	Calls  []*HQCall
}

func installHQ(r *e2e) {
	m := &HQModel{r: r, seen: map[string]string{}, counts: map[string]int{}}
	for _, q := range r.sc.Queue {
		m.rows = append(m.rows, &hqRow{ID: q.ID, Value: q.Value, Via: q.Via, Path: strings.Repeat("L", q.Hops), Status: "FRESH"})
	}
	if r.sc.HQ != nil {
		for _, s := range r.sc.HQ.Seen {
			// pre-seeded knowledge: every other URL is only known as an asset
			if len(m.seen)%2 == 0 {
				m.seen[s] = "asset"
			} else {
				m.seen[s] = "seed"
			}
		}
	}
	r.hq = m
	r.net.Services[hqHost] = func(n *SimNet, c net.Conn, host string) { m.serve(c) }
	http.DefaultTransport = &http.Transport{
		DialContext: func(ctx context.Context, network, addr string) (net.Conn, error) {
			return r.net.Dial(ctx, network, addr, "hq")
		},
		DisableKeepAlives: true,
	}
	gocrawlhq.SimNetDial = func(ctx context.Context, network, addr string) (net.Conn, error) {
		return r.net.Dial(ctx, network, addr, "hq-ws")
	}
}

func (m *HQModel) fresh() int {
	n := 0
	for _, r := range m.rows {
		if r.Status == "FRESH" {
			n++
		}
	}
	return n
}

func (m *HQModel) faultFor(kind string, n int) string {
	if m.r.sc.HQ == nil || m.r.sc.HQ.Faults == nil {
		return ""
	}
	fs := m.r.sc.HQ.Faults[kind]
	if n < len(fs) {
		return strings.TrimSuffix(fs[n], "*")
	}
	if len(fs) > 0 && strings.HasSuffix(fs[len(fs)-1], "*") {
		return strings.TrimSuffix(fs[len(fs)-1], "*") // an outage that does not end ("500*")
	}
	return ""
}

func writeHTTP(c net.Conn, status int, body []byte) error {
	if _, err := fmt.Fprintf(c, "HTTP/1.1 %d %s\r\nContent-Type: application/json\r\nContent-Length: %d\r\nConnection: close\r\n\r\n", status, statusText(status), len(body)); err != nil {
		return err
	}
	_, err := c.Write(body)
	return err
}

func (m *HQModel) serve(c net.Conn) {
	defer c.Close()
	k := m.r.k
	br := bufio.NewReader(c)
	if line, err := br.Peek(40); err == nil && strings.Contains(string(line), "/api/ws") {
		// websocket: accept and discard
		rw := struct {
			io.Reader
			io.Writer
		}{br, c}
		if _, err := ws.Upgrade(rw); err != nil {
			return
		}
		for {
			if _, _, err := wsutil.ReadClientData(rw); err != nil {
				return
			}
		}
	}
	req, err := http.ReadRequest(br)
	if err != nil {
		return
	}
	body, _ := io.ReadAll(req.Body)
	kind := ""
	arg := ""
	switch {
	case strings.HasSuffix(req.URL.Path, "/urls") && req.Method == "GET":
		kind = "get"
	case strings.HasSuffix(req.URL.Path, "/urls") && req.Method == "POST":
		kind = "add"
	case strings.HasSuffix(req.URL.Path, "/urls") && req.Method == "DELETE":
		kind = "delete"
	case strings.HasSuffix(req.URL.Path, "/seencheck"):
		kind = "seencheck"
	case strings.Contains(req.URL.Path, "/reset/"):
		kind = "reset"
		arg = req.URL.Path[strings.LastIndex(req.URL.Path, "/")+1:]
	default:
		writeHTTP(c, 404, []byte(`{}`))
		return
	}
	m.mu.Lock()
	n := m.counts[kind]
	m.counts[kind]++
	call := &HQCall{Seq: len(m.Calls), Kind: kind, N: n, Fault: m.faultFor(kind, n), Arg: arg}
	m.Calls = append(m.Calls, call)
	fresh := m.fresh()
	m.mu.Unlock()
	actor := "hq:" + kind + "#" + strconv.Itoa(n)
	k.Park(actor, "hqsrv.request", kind, n, fresh)
	call.Step = k.step
	if call.Fault != "" {
		k.Fault("hq-" + kind + "-" + call.Fault)
	}
	switch call.Fault {
	case "500":
		writeHTTP(c, 500, []byte(`{"error":"simulated"}`))
		k.Note(actor, "hqsrv.done", kind, n, "500")
		return
	case "reset-before":
		k.Note(actor, "hqsrv.done", kind, n, "reset-before")
		return
	case "timeout":
		io.Copy(io.Discard, c)
		k.Note(actor, "hqsrv.done", kind, n, "timeout")
		return
	}
	m.mu.Lock()
	status, out := m.apply(call, kind, arg, body, req)
	call.Applied = true
	m.mu.Unlock()
	if call.Fault == "reset-after" {
		k.Note(actor, "hqsrv.done", kind, n, "reset-after")
		return
	}
	if err := writeHTTP(c, status, out); err != nil {
		// the client had already given up (its 5 s timeout): applied, but the answer was lost
		call.Lost = true
	}
	k.Note(actor, "hqsrv.done", kind, n, status)
}

// apply performs the call on the model (m.mu held).
func (m *HQModel) apply(call *HQCall, kind, arg string, body []byte, req *http.Request) (int, []byte) {
	switch kind {
	case "get":
		size, _ := strconv.Atoi(req.URL.Query().Get("size"))
		var out []gocrawlhq.URL
		for _, r := range m.rows {
			if len(out) >= size {
				break
			}
			if r.Status == "FRESH" {
				r.Status = "CLAIMED"
				out = append(out, gocrawlhq.URL{ID: r.ID, Value: r.Value, Via: r.Via, Path: r.Path, Status: "CLAIMED", Type: "seed"})
			}
		}
		call.Out = out
		if len(out) == 0 {
			return 204, nil
		}
		b, _ := json.Marshal(out)
		return 200, b
	case "add":
		var p gocrawlhq.AddPayload
		json.Unmarshal(body, &p)
		call.URLs = p.URLs
		for _, u := range p.URLs {
			m.nextID++
			m.rows = append(m.rows, &hqRow{ID: fmt.Sprintf("hq-%04d", m.nextID), Value: u.Value, Via: u.Via, Path: u.Path, Status: "FRESH"})
		}
		return 201, []byte(`{}`)
	case "delete":
		var p gocrawlhq.DeletePayload
		json.Unmarshal(body, &p)
		call.URLs = p.URLs
		for _, u := range p.URLs {
			for i, r := range m.rows {
				if r.ID == u.ID {
					m.rows = append(m.rows[:i], m.rows[i+1:]...)
					break
				}
			}
		}
		return 204, nil
	case "seencheck":
		var us []gocrawlhq.URL
		json.Unmarshal(body, &us)
		call.URLs = us
		var out []gocrawlhq.URL
		call.Prior = map[string]string{}
		for _, u := range us {
			prior := m.seen[u.Value]
			call.Prior[u.Value] = prior
			switch {
			case prior == "":
				m.seen[u.Value] = u.Type
				out = append(out, u)
			case prior == "asset" && u.Type == "seed":
				m.seen[u.Value] = "seed" // promotion
				out = append(out, u)
			}
		}
		call.Out = out
		if len(out) == 0 {
			return 204, nil
		}
		b, _ := json.Marshal(out)
		return 200, b
	case "reset":
		for _, r := range m.rows {
			if r.ID == arg {
				r.Status = "FRESH"
			}
		}
		return 200, []byte(`{}`)
	}
	return 404, nil
}

func (m *HQModel) snapshot() []*HQCall {
	m.mu.Lock()
	defer m.mu.Unlock()
	return append([]*HQCall(nil), m.Calls...)
}
