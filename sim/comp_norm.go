package sim

import (
	"fmt"
	"net/url"
	goruntime "runtime"
	"strings"

	"github.com/internetarchive/Zeno/internal/pkg/preprocessor"
	"github.com/internetarchive/Zeno/pkg/models"
)

func init() { compSims["norm"] = simNorm }

type normResult struct {
	err   string
	canon string
}

func normOnce(text string, parent *models.URL, bias uint64) normResult {
	goruntime.SimSetBias(bias)
	u := &models.URL{Raw: text}
	var p *models.URL
	if parent != nil {
		p = &models.URL{Raw: parent.Raw}
		if err := p.Parse(); err != nil {
			return normResult{err: "parent: " + err.Error()}
		}
	}
	if err := preprocessor.NormalizeURL(u, p); err != nil {
		return normResult{err: err.Error()}
	}
	return normResult{canon: u.String()}
}

func decodePairs(q string) ([][2]string, bool) {
	var out [][2]string
	if q == "" {
		return nil, true
	}
	for _, seg := range strings.Split(q, "&") {
		kv := strings.SplitN(seg, "=", 2)
		k, err := url.QueryUnescape(kv[0])
		if err != nil {
			return nil, false
		}
		v := ""
		if len(kv) == 2 {
			v, err = url.QueryUnescape(kv[1])
			if err != nil {
				return nil, false
			}
		}
		out = append(out, [2]string{k, v})
	}
	return out, true
}

// simNorm: URL canonicalisation as a function of (text, parent) under simulator-owned map iteration orders.
func simNorm(cs *compState) {
	k := cs.k
	pick := func(xs ...string) string { return xs[cs.Draw(len(xs))] }
	genHost := func() string {
		return pick("example.com", "www.Example.COM", "a.b.example.org", "10.1.2.3", "example.com:8080", "example.com:80", "user:pw@example.com", "bücher.example", "xn--bcher-kva.example", "EXAMPLE.com.", "localhost", "127.0.0.1", "127.0.0.1:8080", "localhost:8080", "127.0.0.1:443", "intranet", "intranet:8080", "sub_domain.example.com")
	}
	genPath := func() string {
		return pick("", "/", "/a/b", "/a/../b", "/a/./b/", "/%7Euser/x", "/a%20b", "/dir/page.html", "/x/y/z/", "//double/slash", "/caf%C3%A9", "/a;b=c", "/index.php")
	}
	wellFormedQueries := []string{"a=1", "a=1&b=2", "b=2&a=1", "b=2&a=1&a=3", "z=26&y=25&x=24&w=23", "q=a+b&lang=en", "id=7&id=8&id=9", "k=&j=1", "u=%2Fpath&v=%26", "a=1&B=2&c=3&D=4&e=5&f=6&g=7&h=8&i=9&j=10"}
	genQuery := func() (string, bool) {
		switch cs.Draw(4) {
		case 0:
			return "", true
		case 1, 2:
			return "?" + wellFormedQueries[cs.Draw(len(wellFormedQueries))], true
		default:
			return pick("?", "?k", "?k&j", "?a=1&&b=2", "?a=%zz", "?x=1;y=2", "?=v", "?a==b", "?u=http://x.example/?z=1&w=2", "?q=café",
				"?a=1&b=%zz&c=3&a=2", "?%zz=1&k=v&k=w", "?a=1&b=%&c=3", "?p=1&q=%g1&r=3&p=4&s=5"), false
		}
	}
	nChecked, nAccepted, nMulti := 0, 0, 0
	n := 12 + cs.Draw(12)
	for i := 0; i < n; i++ {
		// parent (canonical, well-formed)
		parentText := "http://" + pick("site.example", "10.9.8.7", "www.site.example:8080") + pick("/", "/dir/sub/page.html", "/dir/", "/a/b/c?x=1", "/p.html#top")
		pr := normOnce(parentText, nil, 1)
		var parent *models.URL
		if pr.err == "" {
			parent = &models.URL{Raw: pr.canon}
		}
		var text string
		var wfQuery string
		relative := false
		switch cs.Draw(10) {
		case 0, 1, 2, 3, 4: // absolute
			scheme := pick("http://", "http://", "https://", "HTTP://", "", "ftp://", "//")
			q, wf := genQuery()
			text = scheme + genHost() + genPath() + q + pick("", "", "#frag")
			if wf && q != "" {
				wfQuery = q[1:]
			}
			if scheme != "" && scheme != "//" {
				parent = nil
			} else if scheme == "" {
				parent = nil // scheme-less seed: http is assumed
			}
		case 5:
			text = pick("javascript:void(0)", "mailto:a@b.example", "data:text/plain,x", "about:blank", "file:///etc/passwd", "http://", "http:///nohost", "http://[::1]/x", "://bad", "ht!tp://x.example/", "")
			parent = nil
		default: // relative to the parent
			relative = true
			q, wf := genQuery()
			text = pick("/root/x.png", "x.png", "./sub/x.png", "../up.png", "../../../over.png", "sub/../same.png", "/a/./b/../c.css", "") + q
			if text == "" {
				text = "?only=query"
				q, wf = "?only=query", true
			}
			if wf && q != "" {
				wfQuery = q[1:]
			}
		}
		switch cs.Draw(8) {
		case 0:
			text = `"` + text + `"`
		case 1:
			text = `'` + text + `'`
		}
		if relative && parent == nil {
			continue
		}
		nChecked++
		base := normOnce(text, parent, 1)
		// A. determinism under other iteration orders
		for b := uint64(2); b <= 7; b++ {
			r := normOnce(text, parent, b)
			if r != base {
				k.Violate("C09", "deterministic", "canonical-string-depends-on-map-order", fmt.Sprintf("text %q (parent %v): %q under one map order, %q under another", text, parentRaw(parent), base.canon+base.err, r.canon+r.err))
				break
			}
		}
		if base.err != "" {
			continue
		}
		nAccepted++
		// B. shape and idempotence
		if why := canonicalShape(base.canon); why != "" {
			k.Violate("C09", "shape", "bad-canonical-shape", fmt.Sprintf("text %q accepted as %q: %s", text, base.canon, why))
		}
		again := normOnce(base.canon, nil, 3)
		if again.err != "" || again.canon != base.canon {
			k.Violate("C09", "idempotent", "canonical-not-fixed-point", fmt.Sprintf("text %q -> %q -> %q %s", text, base.canon, again.canon, again.err))
		}
		// C. relative resolution against the reference resolver (well-formed ASCII subset)
		cu, err := url.Parse(base.canon)
		if err != nil {
			continue
		}
		if relative {
			ref, err1 := url.Parse(strings.Trim(text, `"'`))
			pu, err2 := url.Parse(parent.Raw)
			if err1 == nil && err2 == nil {
				want := pu.ResolveReference(ref)
				if want.Path != cu.Path || want.Host != cu.Host {
					k.Violate("C09", "resolution", "relative-reference-misresolved", fmt.Sprintf("reference %q against %q: expected path %q on %q, got %q", text, parent.Raw, want.Path, want.Host, base.canon))
				}
			}
		}
		// D'. a malformed pair costs only itself: the well-formed pairs around it keep their order and multiplicity
		if i := strings.IndexByte(text, '?'); i >= 0 && wfQuery == "" && strings.Contains(text[i:], "&") && strings.Contains(text[i:], "%") {
			q := strings.Trim(text[i+1:], `"'`)
			if j := strings.IndexByte(q, '#'); j >= 0 {
				q = q[:j]
			}
			var wantWF [][2]string
			for _, seg := range strings.Split(q, "&") {
				if ps, ok := decodePairs(seg); ok && len(ps) == 1 && seg != "" {
					wantWF = append(wantWF, ps[0])
				}
			}
			gotSegs := strings.Split(cu.RawQuery, "&")
			j := 0
			for _, seg := range gotSegs {
				if ps, ok := decodePairs(seg); ok && len(ps) == 1 && j < len(wantWF) && ps[0] == wantWF[j] {
					j++
				}
			}
			if len(wantWF) >= 2 {
				nMulti++
				if j < len(wantWF) {
					k.Violate("C09", "query-order", "well-formed-parameters-lost", fmt.Sprintf("text %q: the well-formed parameters %v do not all survive, in order, in %q", text, wantWF, base.canon))
				}
			}
		}
		// F. the same text normalised on an object that was parsed before (as the queue consumers do), and normalised twice
		{
			goruntime.SimSetBias(2)
			u := &models.URL{Raw: text}
			_ = u.Parse()
			var p2 *models.URL
			if parent != nil {
				p2 = &models.URL{Raw: parent.Raw}
				p2.Parse()
			}
			if err := preprocessor.NormalizeURL(u, p2); err == nil {
				if u.String() != base.canon {
					k.Violate("C09", "deterministic", "result-depends-on-object-history", fmt.Sprintf("text %q: %q when the object had been parsed before normalisation, %q on a fresh object", text, u.String(), base.canon))
				} else if err := preprocessor.NormalizeURL(u, p2); err != nil || u.String() != base.canon {
					k.Violate("C09", "idempotent", "second-normalisation-differs", fmt.Sprintf("text %q: normalising the same object again gives %q (%v), first %q", text, u.String(), err, base.canon))
				}
			} else {
				k.Violate("C09", "deterministic", "result-depends-on-object-history", fmt.Sprintf("text %q accepted on a fresh object (%q) but rejected (%v) when the object had been parsed before", text, base.canon, err))
			}
		}
		// D. order and multiplicity of well-formed query parameters
		if wfQuery != "" {
			want, ok1 := decodePairs(wfQuery)
			got, ok2 := decodePairs(cu.RawQuery)
			if ok1 && ok2 {
				if len(want) >= 2 {
					nMulti++
				}
				if fmt.Sprint(want) != fmt.Sprint(got) {
					k.Violate("C09", "query-order", "query-parameters-reordered", fmt.Sprintf("text %q: parameters %v became %v in %q", text, want, got, base.canon))
				}
			}
		}
	}
	// E. purity with respect to the parent: normalising one child must not change how its siblings resolve
	// (the preprocessor normalises all children of a page against the same parent object, in document order)
	for r := 0; r < 3; r++ {
		parentText := "http://" + pick("site.example", "www.site.example:8443", "10.9.8.7:8080") + pick("/docs/guide/page.html", "/a/b/", "/x/y/z.html?q=1")
		pr := normOnce(parentText, nil, 1)
		if pr.err != "" {
			continue
		}
		shared := &models.URL{Raw: pr.canon}
		if shared.Parse() != nil {
			continue
		}
		refs := []string{}
		for j := 0; j < 2+cs.Draw(4); j++ {
			refs = append(refs, pick("/root/abs.png", "img/logo.png", "../up.css", "?v=2", "./x.js", "/other/abs2.png", "sub/deep/a.gif", "//cdn.example/lib.js"))
		}
		for _, ref := range refs {
			fresh := normOnce(ref, &models.URL{Raw: pr.canon}, 2)
			goruntime.SimSetBias(2)
			u := &models.URL{Raw: ref}
			err := preprocessor.NormalizeURL(u, shared)
			got := normResult{}
			if err != nil {
				got.err = err.Error()
			} else {
				got.canon = u.String()
			}
			nChecked++
			if got != fresh {
				k.Violate("C09", "deterministic", "result-depends-on-earlier-siblings", fmt.Sprintf("reference %q against parent %q gives %q after its siblings %v were normalised against the same parent object, but %q against a fresh parent", ref, pr.canon, got.canon+got.err, refs, fresh.canon+fresh.err))
				break
			}
		}
	}
	k.Probes["c09-texts-checked"] += nChecked
	k.Probes["c09-texts-accepted"] += nAccepted
	k.Probes["c09-multi-parameter-queries"] += nMulti
	goruntime.SimSetBias(0)
}

func parentRaw(p *models.URL) string {
	if p == nil {
		return "<none>"
	}
	return p.Raw
}
