package sim

import (
	"fmt"
	"sync"
	"time"

	"github.com/internetarchive/Zeno/internal/pkg/config"
	"github.com/internetarchive/Zeno/verifsim/sim/statsx"
)

func init() { compSims["stats"] = simStats }

// simStats: concurrent clients on the statement-level instrumented copy of internal/pkg/stats.
func simStats(cs *compState) {
	k := cs.k
	statsx.XReinit()
	if config.Get() == nil {
		config.InitConfig()
	}
	// the Prometheus exporter is a configuration of the same counters: on in a third of the iterations
	config.Get().Prometheus = cs.Chance(1, 3)
	config.Get().PrometheusPrefix = "zeno_"
	cs.sample["prometheus"] = config.Get().Prometheus
	defer func() { config.Get().Prometheus = false }()
	if err := statsx.Init(); err != nil {
		k.Violate("C17", "init", "stats-init-failed", err.Error())
		return
	}
	var mm sync.Mutex
	var urls, seeds, meanSum, meanCount uint64
	codes := map[string]uint64{}
	nClients := 2 + cs.Draw(5)
	cs.sample["clients"] = nClients
	for c := 0; c < nClients; c++ {
		actor := fmt.Sprintf("client%d", c)
		n := 2 + cs.Draw(7)
		cs.Go(actor, func() {
			var live [4]int
			for i := 0; i < n; i++ {
				k.Park(actor, "comp.op.begin", i)
				switch op := cs.Draw(9); op {
				case 0, 1:
					statsx.URLsCrawledIncr()
					mm.Lock()
					urls++
					mm.Unlock()
				case 2:
					statsx.SeedsFinishedIncr()
					mm.Lock()
					seeds++
					mm.Unlock()
				case 3:
					g := cs.Draw(4)
					switch g {
					case 0:
						statsx.PreprocessorRoutinesIncr()
					case 1:
						statsx.ArchiverRoutinesIncr()
					case 2:
						statsx.PostprocessorRoutinesIncr()
					default:
						statsx.FinisherRoutinesIncr()
					}
					live[g]++
				case 4, 5:
					code := []string{"200", "404", "500", "301", "999", "600", "103"}[cs.Draw(7)] // whatever three digits a server sends
					statsx.HTTPReturnCodesIncr(code)
					mm.Lock()
					codes[code]++
					mm.Unlock()
				case 6:
					ms := uint64(1 + cs.Draw(5000))
					statsx.MeanHTTPRespTimeAdd(time.Duration(ms) * time.Millisecond)
					mm.Lock()
					meanSum += ms
					meanCount++
					mm.Unlock()
				case 7:
					statsx.URLsCrawledGet()
					statsx.HTTPReturnCodesGet("200")
					statsx.MeanHTTPRespTimeGet()
					statsx.GetMapTUI()
				default:
					statsx.URLsCrawledReset() // resets the per-second window only, never the total
					statsx.HTTPReturnCodesReset("404")
				}
			}
			// workers leave: every gauge increment is matched by a decrement (as the stage workers' defers do)
			for g, cnt := range live {
				for ; cnt > 0; cnt-- {
					k.Park(actor, "comp.decr", g)
					switch g {
					case 0:
						statsx.PreprocessorRoutinesDecr()
					case 1:
						statsx.ArchiverRoutinesDecr()
					case 2:
						statsx.PostprocessorRoutinesDecr()
					default:
						statsx.FinisherRoutinesDecr()
					}
				}
			}
		})
	}
	reason := cs.runUntilQuiet(nil)
	if reason == "max-steps" && !k.Spun() {
		k.Probe("comp-step-budget-exhausted")
		k.Drain()
		return
	}
	if reason != "done" {
		k.Violate("C17", "progress", "stats-call-blocked", fmt.Sprintf("%s: %v", reason, k.ParkedSummary()))
		k.Drain()
		return
	}
	k.Drain() // from here on the instrumented getters must not park the root goroutine
	gu, gs, pre, arch, post, fin, gcodes, gsum, gcount := statsx.XTotals()
	if gu != urls {
		k.Violate("C17", "totals", "urls-crawled-lost-update", fmt.Sprintf("%d increments happened, total says %d", urls, gu))
	}
	if gs != seeds {
		k.Violate("C17", "totals", "seeds-finished-lost-update", fmt.Sprintf("%d increments happened, total says %d", seeds, gs))
	}
	if pre != 0 || arch != 0 || post != 0 || fin != 0 {
		k.Violate("C17", "gauges", "gauge-not-zero-after-workers-left", fmt.Sprintf("pre=%d arch=%d post=%d fin=%d", pre, arch, post, fin))
	}
	for code, n := range codes {
		if gcodes[code] != n {
			k.Violate("C17", "totals", "status-code-count-lost-update", fmt.Sprintf("status %s: %d events, total says %d", code, n, gcodes[code]))
		}
	}
	for code, n := range gcodes {
		if codes[code] != n && codes[code] == 0 {
			k.Violate("C17", "totals", "status-code-count-invented", fmt.Sprintf("status %s: total %d, no such event", code, n))
		}
	}
	if gsum != meanSum || gcount != meanCount {
		k.Violate("C17", "means", "mean-sum-or-count-wrong", fmt.Sprintf("samples: sum %d count %d; metric: sum %d count %d", meanSum, meanCount, gsum, gcount))
	}
	if meanCount > 0 {
		if got, want := statsx.MeanHTTPRespTimeGet(), float64(meanSum)/float64(meanCount); got != want {
			k.Violate("C17", "means", "mean-not-sum-over-count", fmt.Sprintf("metric %.6f, sum/count %.6f", got, want))
		}
	}
	k.Probes["c17-ops"] += int(urls + seeds + meanCount)
	k.Drain()
}
