package sim

import (
	"context"
	"fmt"
	"math"
	"sort"
	"sync"
	"time"

	ratelimiter "github.com/internetarchive/Zeno/verifsim/sim/ratelimiterx"
)

func init() { compSims["ratelimiter"] = simRateLimiter }

type rlRelease struct {
	t   time.Duration
	seq int
}

type rlFailure struct {
	seq    int
	t      time.Duration
	status int
	streak int // position in an uninterrupted run of penalty-class failures on this host
}

// simRateLimiter: waiters and reporters on a BucketManager under the fake clock.
func simRateLimiter(cs *compState) {
	k := cs.k
	cs.staleRounds = 45
	k.MaxSteps = 400000
	capacity := float64([]int{1, 1, 2, 5, 20, 150}[cs.Draw(6)])
	rate := []float64{0.05, 0.2, 0.5, 1, 5, 50}[cs.Draw(6)]
	class := []string{"main", "main", "main", "streak", "evict"}[cs.Draw(5)]
	nHosts := 1 + cs.Draw(3)
	maxBuckets := nHosts + cs.Draw(2)
	cleanup := time.Hour
	if class == "evict" {
		// more hosts than buckets and a short clean-up period: buckets get dropped and come back full (known scope limit, reported separately)
		maxBuckets = 1
		nHosts = 2 + cs.Draw(2)
		cleanup = 5 * time.Second
	}
	cs.sample["capacity"], cs.sample["rate"], cs.sample["class"], cs.sample["hosts"], cs.sample["max_buckets"] = capacity, rate, class, nHosts, maxBuckets
	ctx, cancel := context.WithCancel(context.Background())
	bm := ratelimiter.NewBucketManager(ctx, maxBuckets, capacity, rate, cleanup)
	var mm sync.Mutex
	releases := map[string][]rlRelease{}
	seq := 0
	failures := map[string][]rlFailure{}
	streak := map[string]int{}
	hosts := make([]string, nHosts)
	for i := range hosts {
		hosts[i] = fmt.Sprintf("h%d.example", i)
	}
	gaps := []time.Duration{0, 0, 10 * time.Millisecond, 100 * time.Millisecond, time.Second, 5 * time.Second, 31 * time.Second, 2 * time.Minute, 10 * time.Minute}
	report := func(host string, status int) {
		mm.Lock()
		if status == 429 || status == 403 || status == 408 || status == 425 {
			streak[host]++
			seq++
			failures[host] = append(failures[host], rlFailure{seq: seq, t: k.Now(), status: status, streak: streak[host]})
		} else if status == 0 {
			streak[host] = 0
		}
		mm.Unlock()
	}
	nWaiters := 1 + cs.Draw(4)
	for w := 0; w < nWaiters; w++ {
		actor := fmt.Sprintf("waiter%d", w)
		host := hosts[cs.Draw(nHosts)]
		n := 2 + cs.Draw(8)
		cs.Go(actor, func() {
			for i := 0; i < n; i++ {
				k.Park(actor, "comp.wait.begin", host)
				cs.Enter(actor, "Wait("+host+")")
				bm.Wait(host)
				t := k.Now()
				cs.Leave(actor)
				mm.Lock()
				seq++
				releases[host] = append(releases[host], rlRelease{t: t, seq: seq})
				mm.Unlock()
				k.Park(actor, "comp.wait.end", host)
				reported := -2
				switch cs.Draw(6) {
				case 0:
					bm.OnSuccess(host)
					report(host, 0)
					reported = 0
				case 1, 2:
					st := []int{429, 403, 408, 425, 500, 503}[cs.Draw(6)]
					k.Note(actor, "comp.report.begin", host, st)
					bm.AdjustOnFailure(host, st)
					report(host, st) // recorded once the call has returned: from here on the penalty must hold
					k.Fault(fmt.Sprintf("limiter-failure-%d", st))
					reported = st
				}
				k.Park(actor, "comp.report.end", host, reported)
				if g := gaps[cs.Draw(len(gaps))]; g > 0 {
					time.Sleep(g)
				}
			}
		})
	}
	if class == "streak" {
		host := hosts[0]
		n := 30 + cs.Draw(50)
		cs.Go("hammer", func() {
			for i := 0; i < n; i++ {
				k.Park("hammer", "comp.hammer", i)
				bm.AdjustOnFailure(host, 429)
				report(host, 429)
				if cs.Chance(1, 3) {
					time.Sleep(time.Duration(1+cs.Draw(3)) * time.Second)
				}
			}
			k.Fault("limiter-long-streak")
		})
	}
	// state ranges from the snapshots the limiter emits (tokens, capacity, refillRate, idealRate, penaltyUntil, failureCount)
	hist := newRLHistory()
	k.Oracles = append(k.Oracles, &rlRangeOracle{capacity: capacity, rate: rate}, hist)
	reason := cs.runUntilQuiet(nil)
	if reason == "max-steps" && !k.Spun() {
		k.Probe("comp-step-budget-exhausted") // ran out of steps while simulated time was passing: inconclusive
	} else if reason != "done" {
		k.Violate("C13", "progress", "waiter-never-released", fmt.Sprintf("simulation ended with %s; still inside calls: %v", reason, cs.Blocked()))
	}
	// history oracles (from the limiter's own state changes)
	releases, failures = hist.releases, hist.failures
	for _, host := range hosts {
		var rel []time.Duration
		for _, r := range releases[host] {
			rel = append(rel, r.t)
		}
		sort.Slice(rel, func(i, j int) bool { return rel[i] < rel[j] })
		if class != "evict" {
			for i := 0; i < len(rel); i++ {
				for j := i; j < len(rel); j++ {
					n := float64(j - i + 1)
					bound := capacity + (rel[j]-rel[i]).Seconds()*rate
					if n > bound+1e-6 {
						k.Violate("C13", "window", "too-many-releases-in-window", fmt.Sprintf("host %s: %d requests released within %v (from t=%v): allowed capacity %.0f + T x rate %.3g = %.6f", host, j-i+1, rel[j]-rel[i], rel[i], capacity, rate, bound))
						i, j = len(rel), len(rel)
					}
				}
			}
		}
		if class == "evict" {
			k.Probe("c13-evict-class-runs")
			continue
		}
		for _, f := range failures[host] {
			p := 5 * time.Second * time.Duration(1<<uint(min(f.streak-1, 10)))
			if p > 30*time.Second {
				p = 30 * time.Second
			}
			for _, r := range releases[host] {
				t := r.t
				if r.seq > f.seq && t >= f.t && t < f.t+p {
					k.Violate("C13", "penalty", "release-during-penalty", fmt.Sprintf("host %s: status %d reported at t=%v (failure #%d of an uninterrupted streak, penalty at least %v) but a request was released at t=%v", host, f.status, f.t, f.streak, p, t))
					break
				}
			}
		}
	}
	k.Drain()
	bm.Close()
	cancel()
}

// rlHistory derives releases and failures from the limiter's own snapshots (taken under its lock),
// so that their order is the order in which the limiter state changed, not the order in which callers returned.
type rlHistory struct {
	seq       int
	hostOf    map[string]string // actor -> host of the call in progress
	pendingSt map[string]int    // actor -> status of the adjust call in progress (0 = success)
	releases  map[string][]rlRelease
	failures  map[string][]rlFailure
	streak    map[string]int
	// caller-side view: a throttling status whose report call has returned, per host, as long as the host's bucket
	// has not been dropped (LFU eviction / clean-up) since; and the Wait calls entered after it
	failRet   map[string]*Event
	waitAfter map[string]*Event // actor -> the failure return its Wait call was entered after
	reporting map[string]string // actor -> host of the report call in progress ("" once the host's bucket was dropped meanwhile)
	reportT   map[string]int64
}

func newRLHistory() *rlHistory {
	return &rlHistory{hostOf: map[string]string{}, pendingSt: map[string]int{}, releases: map[string][]rlRelease{}, failures: map[string][]rlFailure{}, streak: map[string]int{}, failRet: map[string]*Event{}, waitAfter: map[string]*Event{}, reporting: map[string]string{}, reportT: map[string]int64{}}
}
func (h *rlHistory) Name() string { return "rl-history" }
func (h *rlHistory) OnEvent(k *Kernel, ev *Event) {
	switch ev.Point {
	case "rl.wait.bucket", "rl.adjust.failure", "rl.adjust.success":
		if len(ev.raw) > 0 {
			host, _ := ev.raw[0].(string)
			h.hostOf[ev.Actor] = host
			h.pendingSt[ev.Actor] = 0
			if ev.Point == "rl.adjust.failure" && len(ev.raw) > 1 {
				h.pendingSt[ev.Actor], _ = ev.raw[1].(int)
			}
			if ev.Point == "rl.adjust.success" {
				h.pendingSt[ev.Actor] = -1
			}
		}
	case "comp.report.begin":
		if len(ev.raw) > 0 {
			h.reporting[ev.Actor], _ = ev.raw[0].(string)
			h.reportT[ev.Actor] = ev.T
		}
	case "comp.report.end":
		if len(ev.raw) > 1 {
			host, _ := ev.raw[0].(string)
			st, _ := ev.raw[1].(int)
			if (st == 429 || st == 403 || st == 408 || st == 425) && h.reporting[ev.Actor] == host {
				cp := *ev
				cp.T = h.reportT[ev.Actor] // the penalty runs from no earlier than the moment the report was issued
				h.failRet[host] = &cp
			}
		}
		delete(h.reporting, ev.Actor)
	case "rl.bucket.evict", "rl.bucket.cleanup":
		if len(ev.raw) > 0 {
			host, _ := ev.raw[0].(string)
			delete(h.failRet, host) // the penalty lived in the dropped bucket (scope limit of the limiter table, not judged)
			for a, hh := range h.reporting {
				if hh == host {
					h.reporting[a] = "" // dropped while the report was being applied: the penalty may have gone to the dropped bucket
				}
			}
			for a, hh := range h.hostOf {
				if hh == host {
					delete(h.waitAfter, a)
				}
			}
		}
	case "rl.wait.enter":
		delete(h.waitAfter, ev.Actor)
		if len(ev.raw) > 0 {
			host, _ := ev.raw[0].(string)
			h.hostOf[ev.Actor] = host
			if f := h.failRet[host]; f != nil && ev.Step > f.Step {
				h.waitAfter[ev.Actor] = f
			}
		}
	case "rl.take":
		if f := h.waitAfter[ev.Actor]; f != nil {
			k.Probe("c13-waits-entered-after-a-reported-throttle")
			if ev.T < f.T+int64(5*time.Second) {
				k.Violate("C13", "penalty", "release-during-penalty", fmt.Sprintf("host %s: a throttling status was reported (call returned at t=%v, step %d), the host's bucket was not dropped since, yet a Wait entered afterwards was released at t=%v, before the minimum penalty of 5s had elapsed", h.hostOf[ev.Actor], time.Duration(f.T), f.Step, time.Duration(ev.T)))
			}
			delete(h.waitAfter, ev.Actor)
		}
		h.seq++
		host := h.hostOf[ev.Actor]
		h.releases[host] = append(h.releases[host], rlRelease{t: time.Duration(ev.T), seq: h.seq})
	case "rl.adjusted":
		host := h.hostOf[ev.Actor]
		st := h.pendingSt[ev.Actor]
		h.seq++
		if st == 429 || st == 403 || st == 408 || st == 425 {
			h.streak[host]++
			h.failures[host] = append(h.failures[host], rlFailure{seq: h.seq, t: time.Duration(ev.T), status: st, streak: h.streak[host]})
		} else if st == -1 {
			h.streak[host] = 0
		}
	}
}
func (h *rlHistory) OnQuiescent(k *Kernel) {}
func (h *rlHistory) OnEnd(k *Kernel)       {}

type rlRangeOracle struct {
	capacity, rate float64
	lastRate       map[string]float64
	lastKind       map[string]string
}

func (o *rlRangeOracle) Name() string { return "rl-range" }
func (o *rlRangeOracle) OnEvent(k *Kernel, ev *Event) {
	switch ev.Point {
	case "rl.bucket.create":
		// (host, size of the table after the insertion, configured bound), emitted under the manager's lock
		if len(ev.raw) > 2 {
			n, _ := ev.raw[1].(int)
			bound, _ := ev.raw[2].(int)
			if bound > 0 && n > bound {
				k.Violate("C16", "bounded", "limiter-table-over-bound", fmt.Sprintf("the per-host limiter table holds %d buckets after adding %v, configured bound %d", n, ev.raw[0], bound))
			}
			k.Probe("c16-limiter-table-insertions")
		}
	case "rl.take", "rl.refill", "rl.adjusted":
		if len(ev.raw) < 6 {
			return
		}
		tokens, _ := ev.raw[0].(float64)
		capac, _ := ev.raw[1].(float64)
		refill, _ := ev.raw[2].(float64)
		ideal, _ := ev.raw[3].(float64)
		if tokens < -1e-9 || tokens > capac+1e-9 {
			k.Violate("C13", "ranges", "tokens-out-of-range", fmt.Sprintf("%s: tokens=%g capacity=%g", ev.Point, tokens, capac))
		}
		if refill > ideal+1e-12 {
			k.Violate("C13", "ranges", "rate-above-configured", fmt.Sprintf("%s: refill rate %g exceeds the configured rate %g", ev.Point, refill, ideal))
		}
		if lo := math.Min(0.5, ideal); refill < lo-1e-12 {
			k.Violate("C13", "ranges", "rate-below-floor", fmt.Sprintf("%s: refill rate %g below min(0.5, configured %g)", ev.Point, refill, ideal))
		}
		k.Probe("c13-state-snapshots")
	}
}
func (o *rlRangeOracle) OnQuiescent(k *Kernel) {}
func (o *rlRangeOracle) OnEnd(k *Kernel)       {}
