package sim

import (
	"fmt"
	"net/http"
	"sort"
	"strconv"
	"strings"
	"time"

	"github.com/internetarchive/Zeno/internal/pkg/source/lq/sqlc_model"
	"github.com/internetarchive/Zeno/pkg/models"
	"github.com/internetarchive/gocrawlhq"
)

// Names maps run-specific identifiers (uuids, worker numbers) to canonical,
// schedule-independent names (rule R1 of DESIGN.md §3.2).
type Names struct {
	idName   map[string]string
	valCount map[string]int
	ackSeq   map[string]int
}

func NewNames() *Names {
	return &Names{idName: map[string]string{}, valCount: map[string]int{}, ackSeq: map[string]int{}}
}

// Seed registers (if needed) and returns the canonical name of a queue row / seed.
// It must only be called from contexts whose order is schedule-determined
// (single-goroutine source hooks), which holds for the lq/hq fetchers.
func (n *Names) Seed(id, value string) string {
	if nm, ok := n.idName[id]; ok {
		return nm
	}
	n.valCount[value]++
	nm := value
	if c := n.valCount[value]; c > 1 {
		nm = value + "~" + strconv.Itoa(c)
	}
	n.idName[id] = nm
	return nm
}

func (n *Names) Lookup(id string) (string, bool) {
	nm, ok := n.idName[id]
	return nm, ok
}

func (n *Names) ItemSeed(it *models.Item) string {
	if it == nil {
		return "<nil>"
	}
	s := it.GetSeed()
	if s == nil {
		s = it
	}
	if nm, ok := n.idName[s.GetID()]; ok {
		return nm
	}
	raw := ""
	if s.GetURL() != nil {
		raw = s.GetURL().Raw
	}
	// not a queue row (an outlink on its way to the queue, a directly inserted seed): do not consume a row name
	return "new:" + raw
}

func itemKey(it *models.Item) string {
	if it == nil || it.GetURL() == nil {
		return "<nil>"
	}
	return "d" + strconv.FormatInt(it.GetDepth(), 10) + " " + it.GetURL().Raw
}

// ResolvePending turns placeholder actors "?ack:<stage>:<worker>" into rank names.
func (n *Names) ResolvePending(evs []*Event, actorOf map[uint64]string) {
	var idx []int
	for i, ev := range evs {
		if strings.HasPrefix(ev.Actor, "?ack:") {
			idx = append(idx, i)
		}
	}
	if len(idx) == 0 {
		return
	}
	sort.SliceStable(idx, func(a, b int) bool { return evs[idx[a]].Actor < evs[idx[b]].Actor })
	assigned := map[string]string{}
	for _, i := range idx {
		ph := evs[i].Actor
		if nm, ok := assigned[ph]; ok {
			evs[i].Actor = nm
			continue
		}
		parts := strings.SplitN(ph, ":", 3)
		stage := parts[1]
		nm := stage + ":ack#" + strconv.Itoa(n.ackSeq[stage])
		n.ackSeq[stage]++
		assigned[ph] = nm
		evs[i].Actor = nm
		if actorOf[evs[i].goid] == ph {
			actorOf[evs[i].goid] = nm
		}
	}
}

func statusOf(it *models.Item) string {
	if it == nil {
		return "<nil>"
	}
	return it.GetStatus().String()
}

// CanonArgs renders hook arguments without run-specific identifiers.
func (n *Names) CanonArgs(point string, raw []any) []string {
	if len(raw) == 0 {
		return nil
	}
	if strings.HasSuffix(point, ".pause.ack") || strings.HasSuffix(point, ".resumed") || strings.HasSuffix(point, ".exit") {
		// the worker number is not canonical: which of the symmetric workers is busy depends on start-up timing (rule R1)
		return nil
	}
	out := make([]string, 0, len(raw))
	for _, a := range raw {
		out = append(out, n.canon(a))
	}
	if strings.HasPrefix(point, "lq.stop.reset.one") || strings.HasPrefix(point, "hq.stop.reset.one") {
		// sync.Map range order: logged without the id (set semantics kept by the oracle)
		return []string{"<one>"}
	}
	return out
}

func (n *Names) canon(a any) string {
	switch v := a.(type) {
	case nil:
		return "nil"
	case string:
		if nm, ok := n.idName[v]; ok {
			return nm
		}
		return v
	case int:
		return strconv.Itoa(v)
	case int64:
		return strconv.FormatInt(v, 10)
	case bool:
		return strconv.FormatBool(v)
	case float64:
		return strconv.FormatFloat(v, 'g', -1, 64)
	case time.Duration:
		return v.String()
	case time.Time:
		if v.IsZero() {
			return "t0"
		}
		return strconv.FormatInt(v.UnixNano(), 10)
	case error:
		if v == nil {
			return "nil"
		}
		return "err:" + v.Error()
	case *models.Item:
		if v == nil {
			return "<nil-item>"
		}
		if v.IsSeed() {
			return n.ItemSeed(v) + "[" + statusOf(v) + "]"
		}
		return itemKey(v) + "[" + statusOf(v) + "]"
	case *http.Response:
		if v == nil {
			return "resp:nil"
		}
		return "resp:" + strconv.Itoa(v.StatusCode)
	case []sqlc_model.Url:
		parts := make([]string, 0, len(v))
		for _, u := range v {
			if u.ID != "" {
				parts = append(parts, n.Seed(u.ID, u.Value))
			} else {
				parts = append(parts, "new:"+u.Value)
			}
		}
		return "[" + strings.Join(parts, ",") + "]"
	case *sqlc_model.Url:
		if v == nil {
			return "<nil>"
		}
		return n.Seed(v.ID, v.Value)
	case []gocrawlhq.URL:
		parts := make([]string, 0, len(v))
		for _, u := range v {
			if u.ID != "" {
				parts = append(parts, n.Seed(u.ID, u.Value))
			} else {
				parts = append(parts, "new:"+u.Value)
			}
		}
		return "[" + strings.Join(parts, ",") + "]"
	case *gocrawlhq.URL:
		if v == nil {
			return "<nil>"
		}
		return n.Seed(v.ID, v.Value)
	case *models.URL:
		if v == nil {
			return "<nil-url>"
		}
		return "url:" + v.Raw
	case models.ItemState:
		return v.String()
	case fmt.Stringer:
		return fmt.Sprintf("<%T>", a)
	default:
		// pointers to unexported types (buckets, control channels): identity is not canonical
		return fmt.Sprintf("<%T>", a)
	}
}
