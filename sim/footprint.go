package sim

import (
	"bytes"
	"encoding/json"
	"fmt"
	"os"
	"path/filepath"
	"regexp"
	goruntime "runtime"
	"runtime/pprof"
	"sort"
	"strings"
	"time"

	"github.com/internetarchive/Zeno/internal/pkg/config"
	"github.com/internetarchive/Zeno/internal/pkg/reactor"
)

// Footprint is the quiescent resource footprint of the crawler process.
type Footprint struct {
	Goroutines  int            `json:"goroutines"`
	BySite      map[string]int `json:"goroutines_by_site"`
	FDClasses   map[string]int `json:"fd_classes"`
	TempFiles   []string       `json:"temp_files"`
	TableSize   int            `json:"reactor_table"`
	Buckets     int            `json:"limiter_buckets"`
	BucketBound int            `json:"limiter_bucket_bound"`
}

var hexRe = regexp.MustCompile(`0x[0-9a-f]+`)

func takeFootprint(r *e2e, buckets int) *Footprint {
	goruntime.GC()
	goruntime.GC()
	fp := &Footprint{BySite: map[string]int{}, FDClasses: map[string]int{}, Buckets: buckets}
	fp.Goroutines = goruntime.NumGoroutine()
	var buf bytes.Buffer
	pprof.Lookup("goroutine").WriteTo(&buf, 1)
	// blocks look like: "3 @ 0x.. 0x..\n#\t0x..\tfunc+0x..\tfile:line\n..."
	for _, blk := range strings.Split(buf.String(), "\n\n") {
		lines := strings.Split(strings.TrimSpace(blk), "\n")
		if len(lines) < 2 || !strings.Contains(lines[0], " @ ") {
			continue
		}
		var n int
		fmt.Sscanf(lines[0], "%d @", &n)
		// the outermost frame (last line) identifies the goroutine's entry function
		last := lines[len(lines)-1]
		f := strings.Fields(last)
		site := last
		if len(f) >= 3 {
			site = f[2]
			if i := strings.LastIndex(site, "+0x"); i > 0 {
				site = site[:i]
			}
		}
		fp.BySite[site] += n
	}
	ents, _ := os.ReadDir("/proc/self/fd")
	jobAbs, _ := filepath.Abs(r.jobPath)
	tempAbs, _ := filepath.Abs(config.Get().WARCTempDir)
	for _, e := range ents {
		target, err := os.Readlink(filepath.Join("/proc/self/fd", e.Name()))
		if err != nil {
			continue
		}
		cls := "other"
		switch {
		case strings.HasPrefix(target, tempAbs):
			cls = "temp-file"
		case strings.HasPrefix(target, filepath.Join(jobAbs, "warcs")):
			cls = "warc-file"
		case strings.HasPrefix(target, filepath.Join(jobAbs, "seencheck")):
			cls = "seencheck-db"
		case strings.HasPrefix(target, filepath.Join(jobAbs, "lq.db")):
			cls = "queue-db"
		case strings.HasPrefix(target, "socket:"):
			cls = "socket"
		case strings.HasPrefix(target, "pipe:"):
			cls = "pipe"
		case strings.HasPrefix(target, "anon_inode:"):
			cls = "anon-inode"
		case strings.HasPrefix(target, "/dev/") || strings.HasPrefix(target, "/proc/"):
			cls = "dev"
		case strings.Contains(target, "events.") || strings.Contains(target, "origin.") || strings.Contains(target, "exch."):
			cls = "sim-log"
		}
		fp.FDClasses[cls]++
	}
	if tents, err := os.ReadDir(config.Get().WARCTempDir); err == nil {
		for _, e := range tents {
			fp.TempFiles = append(fp.TempFiles, e.Name())
		}
	}
	func() {
		defer func() { recover() }()
		fp.TableSize = len(reactor.GetStateTable())
	}()
	fp.BucketBound = config.Get().WorkersCount * config.Get().MaxConcurrentAssets
	return fp
}

// oC16 samples the footprint after the queue drained plus a long quiet period, and compares it with
// the absolute requirements and (when given) with the footprint of a run with fewer seeds.
type oC16 struct {
	r       *e2e
	buckets int
	waitTil time.Duration
	done    bool
}

func (o *oC16) Name() string { return "C16" }
func (o *oC16) OnEvent(k *Kernel, ev *Event) {
	switch ev.Point {
	case "rl.bucket.create":
		o.buckets++
		if len(ev.raw) >= 3 {
			n, _ := ev.raw[1].(int)
			bound, _ := ev.raw[2].(int)
			if bound > 0 && n > bound {
				k.Violate("C16", "bounded", "limiter-table-over-bound", fmt.Sprintf("the per-host limiter table holds %d buckets after adding %v, configured bound %d", n, ev.raw[0], bound))
			}
		}
	case "rl.bucket.evict", "rl.bucket.cleanup":
		o.buckets--
	}
}
func (o *oC16) OnQuiescent(k *Kernel) {}
func (o *oC16) OnEnd(k *Kernel)       {}

// ready is consulted by the run loop before the stop-at-idle epilogue.
func (o *oC16) ready(k *Kernel) bool {
	if o.done {
		return true
	}
	if o.waitTil == 0 {
		o.waitTil = k.Now() + 31*time.Minute
		return false
	}
	if k.Now() < o.waitTil {
		return false
	}
	o.done = true
	fp := takeFootprint(o.r, o.buckets)
	o.r.summary["footprint"] = fp
	if fp.TableSize != 0 {
		k.Violate("C16", "idle", "reactor-still-tracks-seeds", fmt.Sprintf("%d seeds tracked after the queue drained", fp.TableSize))
	}
	if len(fp.TempFiles) > 0 {
		k.Violate("C16", "idle", "temp-files-left", fmt.Sprintf("temporary files left on disk after the queue drained: %v", fp.TempFiles))
	}
	if fp.FDClasses["temp-file"] > 0 {
		k.Violate("C16", "idle", "temp-file-still-open", fmt.Sprintf("%d descriptors into the temp directory", fp.FDClasses["temp-file"]))
	}
	if fp.FDClasses["socket"] > 0 {
		k.Violate("C16", "idle", "socket-left-open", fmt.Sprintf("%d sockets", fp.FDClasses["socket"]))
	}
	if fp.Buckets > fp.BucketBound {
		k.Violate("C16", "idle", "limiter-table-over-bound", fmt.Sprintf("%d buckets, bound %d", fp.Buckets, fp.BucketBound))
	}
	if exp := o.r.sc.Extra["expect_footprint"]; exp != "" {
		var a Footprint
		if json.Unmarshal([]byte(exp), &a) == nil {
			if d := diffCounts(a.BySite, fp.BySite); d != "" {
				k.Violate("C16", "paired", "goroutines-grow-with-seeds", fmt.Sprintf("goroutines after N seeds: %d, after 4N seeds: %d; by entry function (N vs 4N): %s", a.Goroutines, fp.Goroutines, d))
			}
			af, bf := map[string]int{}, map[string]int{}
			for c, n := range a.FDClasses {
				if c != "seencheck-db" && c != "queue-db" {
					af[c] = n
				}
			}
			for c, n := range fp.FDClasses {
				if c != "seencheck-db" && c != "queue-db" {
					bf[c] = n
				}
			}
			if d := diffCounts(af, bf); d != "" {
				k.Violate("C16", "paired", "descriptors-grow-with-seeds", fmt.Sprintf("open descriptors by class (N vs 4N): %s", d))
			}
			k.Probe("c16-paired-comparisons")
		}
	}
	k.Probe("c16-footprints-taken")
	return true
}

func diffCounts(a, b map[string]int) string {
	keys := map[string]bool{}
	for k := range a {
		keys[k] = true
	}
	for k := range b {
		keys[k] = true
	}
	var out []string
	for k := range keys {
		if a[k] != b[k] {
			out = append(out, fmt.Sprintf("%s: %d vs %d", k, a[k], b[k]))
		}
	}
	sort.Strings(out)
	return strings.Join(out, "; ")
}
