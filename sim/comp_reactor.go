package sim

import (
	"errors"
	"fmt"
	"sort"
	"strings"

	"github.com/internetarchive/Zeno/pkg/models"
	reactor "github.com/internetarchive/Zeno/verifsim/sim/reactorx"
)

func init() { compSims["reactor"] = simReactor }

func newSeed(id string) *models.Item {
	u := &models.URL{Raw: "http://10.9.9.9/" + id}
	u.Parse()
	it := models.NewItem(id, u, "")
	it.SetSource(models.ItemSourceQueue)
	return it
}

// reactorEvents tracks which seeds hold a token according to the reactor's hook events.
type reactorEvents struct{ stored map[string]bool }

func (r *reactorEvents) Name() string { return "reactor-events" }
func (r *reactorEvents) OnEvent(k *Kernel, ev *Event) {
	it := firstItem(ev.raw, 0)
	if it == nil {
		return
	}
	switch ev.Point {
	case "reactor.insert.stored":
		r.stored[it.GetID()] = true
	case "reactor.finish.deleted":
		delete(r.stored, it.GetID())
	}
}
func (r *reactorEvents) OnQuiescent(k *Kernel) {}
func (r *reactorEvents) OnEnd(k *Kernel)       {}

func tableIDs() []string {
	var out []string
	func() {
		defer func() { recover() }()
		out = reactor.GetStateTable()
	}()
	sort.Strings(out)
	return out
}

// simReactor: producers insert, consumers answer every delivered seed with feedback or finish
// (sometimes twice, sometimes for unknown ids), a controller freezes at a scheduled point.
func simReactor(cs *compState) {
	k := cs.k
	tokens := 1 + cs.Draw(5)
	nProd := 1 + cs.Draw(3)
	nCons := 1 + cs.Draw(3)
	perProd := 1 + cs.Draw(4)
	outBuf := cs.Draw(3)
	doFreeze := cs.Chance(1, 3)
	freezeAfter := 1 + cs.Draw(nProd*perProd+2)
	cs.sample["tokens"], cs.sample["producers"], cs.sample["consumers"], cs.sample["inserts_per_producer"], cs.sample["freeze"] = tokens, nProd, nCons, perProd, doFreeze
	out := make(chan *models.Item, outBuf)
	if err := reactor.Start(tokens, out); err != nil {
		k.Violate("C12", "start", "start-failed", err.Error())
		return
	}
	// reference model (updated only by the actor that performed the call, right after it returned)
	accepted := map[string]bool{}  // insert returned nil
	finished := map[string]bool{}  // mark-finished returned nil
	delivered := map[string]int{}  // times seen on the output
	reinserted := map[string]int{} // successful feedbacks
	frozenReturned := false
	ghosts := map[string]bool{}
	prodLeft := nProd
	stopConsumers := make(chan struct{})
	nInserted := 0
	check := func(cond bool, oracle, sig, format string, a ...any) {
		if !cond {
			k.Violate("C12", oracle, sig, fmt.Sprintf(format, a...))
		}
	}
	for p := 0; p < nProd; p++ {
		actor := fmt.Sprintf("prod%d", p)
		cs.Go(actor, func() {
			defer func() { prodLeft-- }()
			for j := 0; j < perProd; j++ {
				id := fmt.Sprintf("s%d-%d", p, j)
				k.Park(actor, "comp.insert.begin", id)
				after := frozenReturned
				cs.Enter(actor, "ReceiveInsert("+id+")")
				err := reactor.ReceiveInsert(newSeed(id))
				cs.Leave(actor)
				if err == nil {
					accepted[id] = true // recorded before parking: the token was taken inside the call
					nInserted++
				}
				k.Park(actor, "comp.insert.end", id, err)
				if err == nil {
					check(!after, "frozen", "insert-accepted-after-freeze", "ReceiveInsert(%s) was invoked after Freeze() had returned and was accepted", id)
				} else {
					// a refused insert takes nothing: the seed is not tracked (and so holds no token)
					for _, tid := range tableIDs() {
						check(tid != id, "insert", "rejected-insert-left-in-table", "ReceiveInsert(%s) returned %v but the seed is tracked (it holds a token for ever)", id, err)
					}
					check(errors.Is(err, reactor.ErrReactorFrozen) || errors.Is(err, reactor.ErrReactorShuttingDown), "insert", "insert-unexpected-error", "ReceiveInsert(%s): %v", id, err)
					check(frozenReturned || doFreeze, "insert", "insert-rejected-without-freeze", "ReceiveInsert(%s) rejected (%v) although the reactor was never frozen", id, err)
				}
			}
		})
	}
	for c := 0; c < nCons; c++ {
		actor := fmt.Sprintf("cons%d", c)
		cs.Go(actor, func() {
			for {
				var it *models.Item
				select {
				case it = <-out:
				case <-stopConsumers:
					return
				}
				k.Park(actor, "comp.got", it.GetID())
				id := it.GetID()
				delivered[id]++
				check(accepted[id] || true, "output", "unknown-on-output", "%s", id)
				switch cs.Draw(6) {
				case 0, 1, 2: // finish (maybe twice, maybe from two goroutines at once)
					before := tableIDs()
					var dupErr error
					dupIssued, dupDone := false, true
					if cs.Chance(1, 4) {
						dupIssued, dupDone = true, false
						cs.Go(actor+"-dup", func() {
							dupErr = reactor.MarkAsFinished(it)
							dupDone = true
						})
					}
					cs.Enter(actor, "MarkAsFinished("+id+")")
					err := reactor.MarkAsFinished(it)
					cs.Leave(actor)
					for !dupDone {
						k.Park(actor, "comp.finish.wait-dup", id)
					}
					if dupIssued {
						if err == nil && dupErr == nil {
							k.Violate("C12", "finish", "concurrent-double-finish-accepted", fmt.Sprintf("two concurrent MarkAsFinished(%s) calls both returned nil: the token was given back twice", id))
						}
						if err != nil && dupErr == nil {
							err = nil // the concurrent duplicate was the successful finish
						}
					}
					if err == nil {
						finished[id] = true
					}
					k.Park(actor, "comp.finish.end", id, err)
					check(err == nil, "finish", "finish-of-tracked-rejected", "MarkAsFinished(%s) on a tracked seed: %v (table before: %v)", id, err, before)
					if cs.Chance(1, 3) {
						err2 := reactor.MarkAsFinished(it)
						k.Park(actor, "comp.finish2.end", id, err2)
						check(err2 != nil, "finish", "repeated-finish-accepted", "second MarkAsFinished(%s) returned nil", id)
					}
				case 3, 4: // feedback of the seed we hold
					cs.Enter(actor, "ReceiveFeedback("+id+")")
					err := reactor.ReceiveFeedback(it)
					cs.Leave(actor)
					k.Park(actor, "comp.feedback.end", id, err)
					if err == nil {
						reinserted[id]++
					} else {
						check(errors.Is(err, reactor.ErrReactorFrozen) || errors.Is(err, reactor.ErrReactorShuttingDown), "feedback", "feedback-of-tracked-rejected", "ReceiveFeedback(%s) on a tracked seed: %v", id, err)
						// the seed is abandoned by this consumer (as the finisher does on a frozen reactor)
					}
				default: // feedback for a seed the reactor never saw, then carry on with the real one
					ghost := newSeed("ghost-" + id + fmt.Sprint(delivered[id]))
					ghosts[ghost.GetID()] = true
					err := reactor.ReceiveFeedback(ghost)
					k.Park(actor, "comp.ghost.end", ghost.GetID(), err)
					check(err != nil, "feedback", "unknown-feedback-accepted", "ReceiveFeedback(%s) for an id the reactor never accepted returned nil", ghost.GetID())
					cs.Enter(actor, "MarkAsFinished("+id+")")
					err = reactor.MarkAsFinished(it)
					cs.Leave(actor)
					if err == nil {
						finished[id] = true
					}
					k.Park(actor, "comp.finish.end", id, err)
					check(err == nil, "finish", "finish-of-tracked-rejected", "MarkAsFinished(%s): %v", id, err)
				}
			}
		})
	}
	if doFreeze {
		cs.Go("ctl", func() {
			for nInserted < freezeAfter && prodLeft > 0 {
				k.Park("ctl", "comp.ctl.wait")
			}
			k.Park("ctl", "comp.freeze.begin")
			reactor.Freeze()
			frozenReturned = true
			k.Note("ctl", "comp.freeze.returned")
		})
	}
	maxInFlight := 0
	ev := &reactorEvents{stored: map[string]bool{}}
	k.Oracles = append(k.Oracles, ev)
	reason := cs.runUntilQuiet(func() {
		// invariants at every quiescent point
		tab := tableIDs()
		// in flight = stored in the table (token held) and not yet removed from it, as reported by the reactor's own hook events
		inFlight := len(ev.stored)
		if inFlight > maxInFlight {
			maxInFlight = inFlight
		}
		if inFlight > tokens {
			k.Violate("C12", "bounded", "more-in-flight-than-tokens", fmt.Sprintf("%d seeds accepted and unfinished, %d tokens", inFlight, tokens))
		}
		if len(tab) > tokens {
			k.Violate("C12", "bounded", "table-larger-than-tokens", fmt.Sprintf("state table %v, %d tokens", tab, tokens))
		}
		for _, id := range tab {
			if ghosts[id] {
				k.Violate("C12", "feedback", "unknown-feedback-side-effect", fmt.Sprintf("feedback for the never-accepted id %s left it in the state table %v", id, tab))
			}
		}
		// all producers done and nothing left in flight (or frozen and quiet): consumers can go
		if prodLeft <= 0 {
			allDone := true
			for id := range accepted {
				if !finished[id] {
					allDone = false
				}
			}
			if allDone || (frozenReturned && len(k.sortedParked()) == 0) {
				select {
				case <-stopConsumers:
				default:
					close(stopConsumers)
				}
			}
		}
	})
	k.Probes["c12-max-in-flight"] += maxInFlight
	if doFreeze && frozenReturned {
		k.Probe("c12-freeze-runs")
	}
	if reason == "max-steps" && !k.Spun() {
		k.Probe("comp-step-budget-exhausted")
	} else if reason == "deadlock" || reason == "max-steps" {
		bl := cs.Blocked()
		if !frozenReturned {
			k.Violate("C12", "progress", "reactor-deadlock", fmt.Sprintf("nothing can run any more (%s) but calls have not returned: %v; accepted=%d finished=%d table=%v", reason, bl, len(accepted), len(finished), tableIDs()))
		} else {
			for a, call := range bl {
				if strings.HasPrefix(call, "ReceiveFeedback") || strings.HasPrefix(call, "MarkAsFinished") {
					k.Violate("C12", "progress", "call-blocked-forever", fmt.Sprintf("%s: %s never returned after freeze", a, call))
				}
			}
		}
	}
	if reason == "done" {
		// nothing is in progress any more: the tokens in use are exactly the tracked seeds (a refused insert keeps none)
		if used, tab := reactor.XTokensInUse(), tableIDs(); used >= 0 && used != len(tab) {
			k.Violate("C12", "bounded", "tokens-in-use-differ-from-tracked-seeds", fmt.Sprintf("every call has returned: %d tokens are in use, %d seeds are tracked %v", used, len(tab), tab))
		}
		for id := range accepted {
			if delivered[id] < 1+reinserted[id] {
				k.Violate("C12", "output", "accepted-seed-not-delivered", fmt.Sprintf("%s accepted, fed back %d times, but seen on the output %d times", id, reinserted[id], delivered[id]))
			}
		}
		if tab := tableIDs(); len(tab) != 0 && !frozenReturned {
			k.Violate("C12", "bounded", "table-not-empty-at-end", fmt.Sprintf("%v", tab))
		}
	}
	// teardown
	k.Drain()
	select {
	case <-stopConsumers:
	default:
		close(stopConsumers)
	}
	close(cs.done)
	reactor.Stop()
}
