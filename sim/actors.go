package sim

import (
	"strings"

	"github.com/internetarchive/Zeno/internal/pkg/source/lq/sqlc_model"
	"github.com/internetarchive/Zeno/pkg/models"
	"github.com/internetarchive/gocrawlhq"
)

// fixed roles: single goroutines identified by the hook-point family they run
var roleByPrefix = []struct{ prefix, role string }{
	{"reactor.run.", "reactor.run"},
	{"lq.fetch.", "lq.fetcher"},
	{"lq.sender.", "lq.sender"},
	{"lq.fin.recv", "lq.finrecv"},
	{"lq.fin.tick", "lq.finrecv"},
	{"lq.fin.cut", "lq.finrecv"},
	{"lq.fin.dispatch", "lq.findisp"},
	{"lq.prod.recv", "lq.prodrecv"},
	{"lq.prod.tick", "lq.prodrecv"},
	{"lq.prod.cut", "lq.prodrecv"},
	{"lq.prod.add", "lq.proddisp"},
	{"hq.fetch.", "hq.fetcher"},
	{"hq.sender.", "hq.sender"},
	{"hq.fin.recv", "hq.finrecv"},
	{"hq.fin.tick", "hq.finrecv"},
	{"hq.fin.cut", "hq.finrecv"},
	{"hq.fin.dispatch", "hq.findisp"},
	{"hq.prod.recv", "hq.prodrecv"},
	{"hq.prod.tick", "hq.prodrecv"},
	{"hq.prod.cut", "hq.prodrecv"},
	{"hq.prod.dispatch", "hq.proddisp"},
	{"hq.ws.", "hq.websocket"},
	{"disk.tick", "disk.watcher"},
	{"disk.verdict", "disk.watcher"},
	{"disk.exit", "disk.watcher"},
	{"wwq.tick", "wwq.watcher"},
	{"wwq.verdict", "wwq.watcher"},
	{"rl.cleanup.", "rl.cleaner"},
}

func firstItem(args []any, idx int) *models.Item {
	n := 0
	for _, a := range args {
		if it, ok := a.(*models.Item); ok {
			if n == idx {
				return it
			}
			n++
		}
	}
	return nil
}

// zenoResolver implements rules R1/R2 for the hook points placed in /repo.
func zenoResolver(k *Kernel, goid uint64, point string, args []any) string {
	set := func(a string) string { k.actorOf[goid] = a; return a }
	inherit := func() string {
		if a, ok := k.actorOf[goid]; ok {
			return a
		}
		return "g?:" + point
	}
	// simulator-owned goroutines name themselves through SetActor
	if strings.HasPrefix(point, "origin.") || strings.HasPrefix(point, "ctl.") || strings.HasPrefix(point, "hqsrv.") || strings.HasPrefix(point, "comp.") {
		return inherit()
	}
	if point == "pause.subscribe" || point == "pause.unsubscribe" {
		return "pause.subscribers"
	}
	for _, r := range roleByPrefix {
		if strings.HasPrefix(point, r.prefix) {
			// name queue rows in fetch order (single goroutine => schedule-determined)
			for _, a := range args {
				switch v := a.(type) {
				case []sqlc_model.Url:
					for _, u := range v {
						if u.ID != "" {
							k.names.Seed(u.ID, u.Value)
						}
					}
				case *sqlc_model.Url:
					k.names.Seed(v.ID, v.Value)
				case []gocrawlhq.URL:
					for _, u := range v {
						if u.ID != "" {
							k.names.Seed(u.ID, u.Value)
						}
					}
				case *gocrawlhq.URL:
					k.names.Seed(v.ID, v.Value)
				}
			}
			return set(r.role)
		}
	}
	stage := point
	if i := strings.IndexByte(point, '.'); i > 0 {
		stage = point[:i]
	}
	switch stage {
	case "pre", "arch", "post", "fin":
		if strings.HasSuffix(point, ".pause.ack") || strings.HasSuffix(point, ".resumed") || strings.HasSuffix(point, ".exit") {
			if cur, ok := k.actorOf[goid]; ok && strings.HasPrefix(cur, stage+":ack#") && !strings.HasSuffix(point, ".pause.ack") {
				return cur
			}
			w := ""
			if len(args) > 0 {
				w, _ = args[0].(string)
			}
			if strings.HasSuffix(point, ".pause.ack") {
				return set("?ack:" + stage + ":" + w)
			}
			// resumed / exit without a preceding ack name in this goroutine
			return "?ack:" + stage + ":" + w
		}
		idx := 0
		if point == "post.outlink" {
			idx = 1
		}
		if point == "pre.verdict" || point == "pre.request" {
			idx = 1
		}
		if it := firstItem(args, idx); it != nil {
			return set(stage + ":" + k.names.ItemSeed(it))
		}
		if it := firstItem(args, 0); it != nil {
			return set(stage + ":" + k.names.ItemSeed(it))
		}
		return inherit()
	case "fetch":
		seed := firstItem(args, 0)
		item := firstItem(args, 1)
		if seed != nil && item != nil {
			return set("fetch:" + k.names.ItemSeed(seed) + " " + itemKey(item))
		}
		return inherit()
	case "lq", "hq":
		if strings.HasPrefix(point, "lq.fin.delete") || strings.HasPrefix(point, "hq.fin.delete") || strings.HasPrefix(point, "hq.prod.send") || strings.HasPrefix(point, "hq.prod.sent") {
			key := "?"
			for _, a := range args {
				switch v := a.(type) {
				case []sqlc_model.Url:
					if len(v) > 0 {
						if v[0].ID != "" {
							key = k.names.Seed(v[0].ID, v[0].Value)
						} else {
							key = v[0].Value
						}
					}
				case []gocrawlhq.URL:
					if len(v) > 0 {
						if v[0].ID != "" {
							key = k.names.Seed(v[0].ID, v[0].Value)
						} else {
							key = v[0].Value
						}
					}
				}
			}
			return set(point[:2] + ".batchsend:" + key)
		}
		return inherit()
	}
	return inherit()
}

// zenoIdle classifies the events that a drained, idle pipeline keeps producing.
func zenoIdle(ev *Event) bool {
	switch ev.Point {
	case "lq.fetch.get", "hq.fetch.get", "disk.tick", "wwq.tick", "wwq.verdict", "rl.cleanup.tick", "hq.ws.tick",
		"advance", "release", "hqsrv.feed.empty", "rl.bucket.cleanup", "disk.reading":
		return true
	case "lq.fetch.got":
		if len(ev.raw) > 0 {
			if u, ok := ev.raw[0].([]sqlc_model.Url); ok && len(u) == 0 {
				return true
			}
		}
		return false
	case "hq.fetch.got":
		if len(ev.raw) > 0 {
			if u, ok := ev.raw[0].([]gocrawlhq.URL); ok && len(u) == 0 {
				return true
			}
		}
		return false
	case "lq.fin.tick", "lq.prod.tick", "hq.fin.tick", "hq.prod.tick":
		if len(ev.raw) > 0 {
			if n, ok := ev.raw[0].(int); ok && n == 0 {
				return true
			}
		}
		return false
	case "hqsrv.request":
		if len(ev.raw) >= 3 {
			kind, _ := ev.raw[0].(string)
			fresh, _ := ev.raw[2].(int)
			return kind == "get" && fresh == 0
		}
		return false
	case "hqsrv.done":
		if len(ev.raw) >= 3 {
			kind, _ := ev.raw[0].(string)
			st, _ := ev.raw[2].(int)
			return kind == "get" && st == 204
		}
		return false
	case "disk.verdict":
		if len(ev.raw) >= 2 {
			paused, _ := ev.raw[1].(bool)
			return ev.raw[0] == nil && !paused
		}
		return false
	}
	return false
}
