package sim

import (
	"fmt"
	"sort"

	"github.com/internetarchive/Zeno/pkg/models"
)

func init() { compSims["tree"] = simTree }

// simTree: pipeline-shaped item trees with duplicate leaves, then de-duplication and completion marking,
// judged by an independent restatement of the rules (public getters only).
func simTree(cs *compState) {
	k := cs.k
	pool := []string{"http://t.example/a.png", "http://t.example/b.css", "http://t.example/c.js", "http://t.example/d.gif", "http://t.example/e", "http://t.example/f/g.html", "http://t.example/h?x=1&y=2"}
	leafStatuses := []models.ItemState{models.ItemFresh, models.ItemFresh, models.ItemCompleted, models.ItemCompleted, models.ItemFailed, models.ItemSeen, models.ItemPreProcessed, models.ItemArchived}
	trees := 6 + cs.Draw(10)
	checked := 0
	for t := 0; t < trees; t++ {
		su := &models.URL{Raw: "http://t.example/seed"}
		su.Parse()
		seed := models.NewItem(fmt.Sprintf("seed%d", t), su, "")
		nodes := []*models.Item{seed}
		internal := []*models.Item{seed}
		n := 2 + cs.Draw(18)
		id := 0
		var leaves []*models.Item
		for i := 0; i < n; i++ {
			parent := internal[cs.Draw(len(internal))]
			from := models.ItemGotChildren
			if parent.GetStatus() == models.ItemGotRedirected || (len(parent.GetChildren()) == 0 && cs.Chance(1, 5)) {
				from = models.ItemGotRedirected
			}
			if from == models.ItemGotRedirected && len(parent.GetChildren()) >= 1 {
				continue // a redirected node has a single child
			}
			if parent.GetStatus() == models.ItemGotRedirected && from == models.ItemGotChildren {
				continue
			}
			cu := &models.URL{Raw: pool[cs.Draw(len(pool))]}
			cu.Parse()
			id++
			child := models.NewItem(fmt.Sprintf("n%d-%d", t, id), cu, "")
			if err := parent.AddChild(child, from); err != nil {
				continue
			}
			nodes = append(nodes, child)
			if cs.Chance(1, 4) && child.GetDepth() < 4 {
				internal = append(internal, child) // will get children of its own
			} else {
				leaves = append(leaves, child)
			}
		}
		// statuses: leaves get any status; internal nodes that ended up childless are leaves too
		for _, nd := range nodes[1:] {
			if len(nd.GetChildren()) == 0 {
				nd.SetStatus(leafStatuses[cs.Draw(len(leafStatuses))])
			}
		}
		if len(seed.GetChildren()) == 0 {
			seed.SetStatus(leafStatuses[cs.Draw(len(leafStatuses))])
		}
		// duplicates are only allowed among childless nodes (as in the pipeline, where a duplicate is a freshly extracted leaf):
		// give internal nodes unique URLs
		for i, nd := range nodes[1:] {
			if len(nd.GetChildren()) > 0 {
				u := &models.URL{Raw: fmt.Sprintf("http://t.example/internal/%d-%d", t, i)}
				u.Parse()
				*nd.GetURL() = *u
			}
		}
		if err := seed.CheckConsistency(); err != nil {
			continue // not a tree the model itself considers consistent: outside the statement
		}
		// a refused AddChild changes nothing: try the refusals the model documents on a snapshot of (status, #children, parent)
		{
			type snap struct {
				st     models.ItemState
				nc     int
				parent *models.Item
			}
			take := func() map[*models.Item]snap {
				m := map[*models.Item]snap{}
				seed.Traverse(func(nd *models.Item) { m[nd] = snap{nd.GetStatus(), len(nd.GetChildren()), nd.GetParent()} })
				return m
			}
			var redirTargets []*models.Item
			seed.Traverse(func(nd *models.Item) {
				if nd.IsRedirection() {
					redirTargets = append(redirTargets, nd)
				}
			})
			for tries := 0; tries < 3; tries++ {
				victim := nodes[cs.Draw(len(nodes))]
				before := take()
				var err error
				what := ""
				switch cs.Draw(3) {
				case 0:
					err, what = victim.AddChild(nil, models.ItemGotChildren), "a nil child"
				case 1:
					nu := &models.URL{Raw: "http://t.example/never"}
					nu.Parse()
					err, what = victim.AddChild(models.NewItem("never", nu, ""), models.ItemArchived), "a child with an invalid origin state"
				default:
					if len(redirTargets) == 0 {
						continue
					}
					err, what = victim.AddChild(redirTargets[cs.Draw(len(redirTargets))], models.ItemGotChildren), "a node that already is a redirect target, as an asset"
				}
				if err == nil {
					if what != "a node that already is a redirect target, as an asset" {
						k.Violate("C11", "well-formed", "invalid-addchild-accepted", fmt.Sprintf("tree %d: AddChild accepted %s", t, what))
					}
					break // the tree changed legitimately or not: stop probing this one
				}
				after := take()
				for nd, b := range before {
					if a := after[nd]; a != b {
						k.Violate("C11", "well-formed", "refused-addchild-changed-the-tree", fmt.Sprintf("tree %d: AddChild of %s on %s was refused (%v) but %s went from status %s / %d children to %s / %d", t, what, victim.GetID(), err, nd.GetID(), b.st, b.nc, a.st, a.nc))
						break
					}
				}
				k.Probe("c11-refused-addchild-checked")
			}
			if seed.CheckConsistency() != nil {
				continue
			}
		}
		before := map[string]int{}
		seed.Traverse(func(nd *models.Item) {
			if nd.GetParent() != nil {
				before[nd.GetURL().String()]++
			}
		})
		if err := seed.DedupeItems(); err != nil {
			k.Violate("C11", "dedupe", "dedupe-error", err.Error())
			continue
		}
		checked++
		after := map[string]int{}
		seed.Traverse(func(nd *models.Item) {
			if nd.GetParent() != nil {
				after[nd.GetURL().String()]++
			}
		})
		var dup, lost []string
		for u, c := range after {
			if c > 1 {
				dup = append(dup, fmt.Sprintf("%s x%d", u, c))
			}
		}
		for u := range before {
			if after[u] == 0 {
				lost = append(lost, u)
			}
		}
		sort.Strings(dup)
		sort.Strings(lost)
		if len(dup) > 0 {
			k.Violate("C11", "dedupe", "duplicate-url-after-dedupe", fmt.Sprintf("tree %d (%d nodes): after de-duplication %v; before: %v", t, len(nodes), dup, before))
		}
		if len(lost) > 0 {
			k.Violate("C11", "dedupe", "url-discarded-by-dedupe", fmt.Sprintf("tree %d: URLs present before de-duplication are gone: %v", t, lost))
		}
		if p := wellFormed(seed); p != "" {
			k.Violate("C11", "well-formed", "tree-not-well-formed", fmt.Sprintf("tree %d after de-duplication: %s", t, p))
		}
		complete := seed.CompleteAndCheck()
		pend := pendingNodes(seed)
		if complete && len(pend) > 0 {
			k.Violate("C11", "completion", "complete-with-pending-node", fmt.Sprintf("tree %d declared complete while %v still await fetching or post-processing", t, pend))
		}
		if !complete && len(pend) == 0 {
			k.Violate("C11", "completion", "incomplete-without-pending-node", fmt.Sprintf("tree %d declared incomplete although no node awaits fetching or post-processing (seed status %s)", t, seed.GetStatus()))
		}
		if p := wellFormed(seed); p != "" {
			k.Violate("C11", "well-formed", "tree-not-well-formed", fmt.Sprintf("tree %d after completion marking: %s", t, p))
		}
	}
	k.Probes["c11-generated-trees-checked"] += checked
}
