package sim

import (
	"encoding/json"
	"os"
	"testing"
)

// TestSim is the entry point of one simulation process: VERIF_IN names a RunInput JSON file.
func TestSim(t *testing.T) {
	path := os.Getenv("VERIF_IN")
	if path == "" {
		t.Skip("VERIF_IN not set")
	}
	b, err := os.ReadFile(path)
	if err != nil {
		t.Fatal(err)
	}
	var in RunInput
	if err := json.Unmarshal(b, &in); err != nil {
		t.Fatal(err)
	}
	switch engineOf(in.Property, in.Scenario) {
	case "e2e":
		RunE2E(t, &in)
	default:
		RunComp(t, &in)
	}
}
