package sim

import "testing"

func engineOf(prop string, sc *Scenario) string {
	if sc != nil && sc.Extra != nil && sc.Extra["engine"] == "comp" {
		return "comp"
	}
	return "e2e"
}

func oraclesFor(r *e2e) []Oracle { return nil }

func RunComp(t *testing.T, in *RunInput) {}
