package sim

import (
	"fmt"
	"github.com/internetarchive/Zeno/internal/pkg/source/lq/sqlc_model"
	"net/http"
	"net/url"
	"path/filepath"
	"regexp"
	"sort"
	"strconv"
	"strings"

	"github.com/internetarchive/Zeno/internal/pkg/reactor"
	"github.com/internetarchive/Zeno/pkg/models"
	"github.com/internetarchive/Zeno/verifsim/scen"
)

func engineOf(prop string, sc *Scenario) string {
	if sc != nil && sc.Extra != nil && sc.Extra["engine"] == "comp" {
		return "comp"
	}
	return "e2e"
}

// IdleOracle is told when the pipeline first becomes idle (queue drained).
type IdleOracle interface{ OnIdle(k *Kernel) }

// exchange is one HTTP exchange as seen by the fetch goroutine, bound to the origin entry it caused.
type exchange struct {
	seed    string
	actor   string
	url     string // request URL text
	key     string
	retry   int
	status  int
	err     bool
	hdr     http.Header
	entry   *OriginEntry
	isChild bool
	depth   int64
	step    int
}

// tracker derives, from the event stream, the facts several oracles share.
type tracker struct {
	r         *e2e
	taken     map[string]int
	takenIDs  []string
	accepted  map[string]int
	finSend   map[string]int
	finRecv   map[string]int
	discarded map[string]int
	tracked   map[string]bool // by reactor state (stored .. deleted)
	passes    map[string]int
	waiting   map[string][]*exchange // key -> released attempts not yet bound to an origin request
	current   map[string]*exchange   // fetch actor -> attempt in progress
	bySeed    map[string][]*exchange
	all       []*exchange
	visits    map[string]int // fetch.begin per URL text
	visitKind map[string][]string
	seedOfRow map[string]string
	outlinks  []outlinkRec
	finStep   map[string]int
	released  map[string]bool // seeds the reactor has let go (state table entry deleted)
}

type outlinkRec struct {
	seed, raw, via string
	hops, pHops    int
}

func newTracker(r *e2e) *tracker {
	return &tracker{r: r, taken: map[string]int{}, accepted: map[string]int{}, finSend: map[string]int{}, finRecv: map[string]int{},
		discarded: map[string]int{}, tracked: map[string]bool{}, passes: map[string]int{}, waiting: map[string][]*exchange{},
		current: map[string]*exchange{}, bySeed: map[string][]*exchange{}, visits: map[string]int{}, visitKind: map[string][]string{},
		seedOfRow: map[string]string{}, finStep: map[string]int{}, released: map[string]bool{}}
}

func (t *tracker) Name() string { return "tracker" }

func reqKey(u string) string { return uriKey(u) }

func (t *tracker) OnEvent(k *Kernel, ev *Event) {
	switch ev.Point {
	case "lq.sender.recv", "hq.sender.recv":
		nm := ev.Args[0]
		t.taken[nm]++
		if t.taken[nm] == 1 {
			t.takenIDs = append(t.takenIDs, nm)
		}
	case "lq.sender.discard", "hq.sender.discard":
		t.discarded[seedArg(ev.Args[0])]++
	case "reactor.insert.stored":
		nm := seedArg(ev.Args[0])
		t.accepted[nm]++
		t.tracked[nm] = true
	case "reactor.finish.deleted":
		delete(t.tracked, seedArg(ev.Args[0]))
		t.released[seedArg(ev.Args[0])] = true
	case "reactor.run.recv":
		t.passes[seedArg(ev.Args[0])]++
	case "fin.finish.send":
		nm := seedArg(ev.Args[0])
		t.finSend[nm]++
		t.finStep[nm] = ev.Step
	case "lq.fin.recv", "hq.fin.recv":
		t.finRecv[seedArg(ev.Args[0])]++
	case "fetch.begin":
		seed, item := firstItem(ev.raw, 0), firstItem(ev.raw, 1)
		if item != nil && item.GetURL() != nil {
			u := item.GetURL().Raw
			t.visits[u]++
			kind := "seed"
			if item.IsChild() {
				kind = "asset"
			} else if !item.IsSeed() {
				kind = "redirect"
			}
			t.visitKind[u] = append(t.visitKind[u], kind+"@"+k.names.ItemSeed(seed))
		}
	case "release":
		// "!sched release <actor>@fetch.attempt": that fetch is about to dial
		what := ev.raw[0].(string)
		if strings.HasSuffix(what, "@fetch.attempt") {
			actor := strings.TrimSuffix(what, "@fetch.attempt")
			if ex := t.current[actor]; ex != nil && ex.entry == nil {
				t.waiting[ex.key] = append(t.waiting[ex.key], ex)
			}
		}
	case "fetch.attempt":
		seed, item := firstItem(ev.raw, 0), firstItem(ev.raw, 1)
		if item == nil || item.GetURL() == nil || item.GetURL().GetRequest() == nil {
			return
		}
		u := item.GetURL().GetRequest().URL.String()
		retry, _ := ev.raw[2].(int)
		ex := &exchange{seed: k.names.ItemSeed(seed), actor: ev.Actor, url: u, key: reqKey(u), retry: retry, isChild: item.IsChild(), depth: item.GetDepth(), step: ev.Step}
		t.current[ev.Actor] = ex
		t.bySeed[ex.seed] = append(t.bySeed[ex.seed], ex)
		t.all = append(t.all, ex)
	case "origin.request":
		key := ev.Args[0]
		att, _ := strconv.Atoi(ev.Args[1])
		q := t.waiting[key]
		if len(q) == 0 {
			k.Probe("unbound-origin-request")
			return
		}
		ex := q[0]
		t.waiting[key] = q[1:]
		for _, e := range t.r.net.Snapshot() {
			if e.Key == key && e.Attempt == att {
				ex.entry = e
			}
		}
	case "fetch.response":
		ex := t.current[ev.Actor]
		if ex == nil {
			return
		}
		// drop from waiting if the dial never produced a request
		q := t.waiting[ex.key]
		for i, x := range q {
			if x == ex {
				t.waiting[ex.key] = append(q[:i:i], q[i+1:]...)
				break
			}
		}
		for _, a := range ev.raw {
			switch v := a.(type) {
			case *http.Response:
				if v != nil {
					ex.status = v.StatusCode
					ex.hdr = v.Header
				}
			case error:
				if v != nil {
					ex.err = true
				}
			}
		}
	case "post.outlink":
		out, seed := firstItem(ev.raw, 0), firstItem(ev.raw, 1)
		if out != nil && seed != nil {
			t.outlinks = append(t.outlinks, outlinkRec{seed: k.names.ItemSeed(seed), raw: out.GetURL().Raw, via: out.GetSeedVia(), hops: out.GetURL().GetHops(), pHops: seed.GetURL().GetHops()})
		}
	}
}
func (t *tracker) OnQuiescent(k *Kernel) {}
func (t *tracker) OnEnd(k *Kernel)       {}

func seedArg(s string) string {
	if i := strings.LastIndexByte(s, '['); i > 0 {
		return s[:i]
	}
	return s
}

func (t *tracker) requestedBefore(key string, step int) bool {
	for _, e := range t.r.net.Snapshot() {
		if e.Key == key && e.Step <= step {
			return true
		}
	}
	return false
}

// ---------------------------------------------------------------- C01

type oC01 struct {
	r *e2e
	t *tracker
	// local queue: how often each handed-out row was part of a DELETE that succeeded
	lqDeleted map[string]int
}

func (o *oC01) Name() string { return "C01" }

func nonTerminal(it *models.Item) []string {
	var bad []string
	it.Traverse(func(n *models.Item) {
		switch n.GetStatus() {
		case models.ItemFresh, models.ItemPreProcessed, models.ItemArchived:
			// not yet fetched, or fetched but not yet post-processed (children unknown)
			bad = append(bad, itemKey(n)+"["+n.GetStatus().String()+"]")
		}
	})
	return bad
}

func (o *oC01) OnEvent(k *Kernel, ev *Event) {
	switch ev.Point {
	case "fin.finish.send":
		it := firstItem(ev.raw, 0)
		nm := k.names.ItemSeed(it)
		if o.t.finSend[nm] > 1 {
			k.Violate("C01", "finish-once", "finished-twice", fmt.Sprintf("seed %s reported finished %d times", nm, o.t.finSend[nm]))
		}
		if o.t.accepted[nm] == 0 {
			k.Violate("C01", "finish-accepted", "finish-of-unaccepted", fmt.Sprintf("seed %s finished but never accepted by the reactor", nm))
		}
		if bad := nonTerminal(it); len(bad) > 0 {
			k.Violate("C01", "tree-terminal", "finished-with-pending-node", fmt.Sprintf("seed %s finished while nodes are not terminal: %v", nm, bad))
			if o.r.in.Property == "C04" {
				// the row is about to be deleted from the queue: after a restart nothing will crawl the rest of this tree
				k.Violate("C04", "resumed", "row-finished-with-unfetched-tree", fmt.Sprintf("seed %s is reported finished to the queue (its row will be deleted) while these nodes of its tree were never fetched or processed: %v", nm, bad))
			}
		}
		// every planted URL of this seed's tree must have been requested before this instant
		var miss []string
		for key, res := range o.r.sc.Site {
			if res.Seed == nm && res.Expect == scen.Must && !o.t.requestedBefore(key, ev.Step) {
				miss = append(miss, key)
			}
		}
		if len(miss) > 0 {
			sort.Strings(miss)
			k.Violate("C01", "tree-fetched", "finished-before-tree-fetched", fmt.Sprintf("seed %s finished but these tree URLs were never requested: %v", nm, miss))
		}
	case "lq.fin.deleted":
		if len(ev.raw) > 1 && ev.raw[1] == nil {
			if us, ok := ev.raw[0].([]sqlc_model.Url); ok {
				if o.lqDeleted == nil {
					o.lqDeleted = map[string]int{}
				}
				for _, u := range us {
					nm := u.ID
					if n, ok := k.names.Lookup(u.ID); ok {
						nm = n
					}
					o.lqDeleted[nm]++
					if o.lqDeleted[nm] > 1 {
						k.Violate("C01", "finish-once", "queue-row-deleted-twice", fmt.Sprintf("the local queue was asked to delete the row of %s %d times", nm, o.lqDeleted[nm]))
					}
					if o.t.finRecv[nm] == 0 {
						k.Violate("C01", "finish-accepted", "queue-row-deleted-without-finish", fmt.Sprintf("the local queue deleted the row of %s, for which it never received a finish", nm))
					}
				}
			}
		}
	case "lq.fin.recv", "hq.fin.recv":
		nm := seedArg(ev.Args[0])
		if o.t.finRecv[nm] > 1 {
			k.Violate("C01", "finish-once", "finish-delivered-twice", fmt.Sprintf("queue received finish for %s %d times", nm, o.t.finRecv[nm]))
		}
		if o.t.taken[nm] == 0 {
			k.Violate("C01", "finish-accepted", "finish-of-untaken", fmt.Sprintf("queue received finish for %s which it never handed out", nm))
		}
	}
}

func (o *oC01) OnQuiescent(k *Kernel) {
	if !o.r.started || o.r.stopFired {
		return
	}
	var table []string
	func() {
		defer func() { recover() }()
		for _, id := range reactor.GetStateTable() {
			nm, ok := k.names.Lookup(id)
			if !ok {
				nm = "?" + id
			}
			table = append(table, nm)
		}
	}()
	sort.Strings(table)
	var want []string
	for nm := range o.t.tracked {
		want = append(want, nm)
	}
	sort.Strings(want)
	if strings.Join(table, "|") != strings.Join(want, "|") {
		k.Violate("C01", "state-table", "table-mismatch", fmt.Sprintf("reactor table %v, accepted-and-unfinished %v", table, want))
	}
}

func (o *oC01) OnIdle(k *Kernel) {
	var pending []string
	for _, nm := range o.t.takenIDs {
		if o.t.finRecv[nm] == 0 {
			pending = append(pending, nm)
		}
	}
	if len(pending) > 0 {
		k.Violate("C01", "never-dropped", "seed-never-finished", fmt.Sprintf("pipeline idle but seeds taken from the queue were never reported finished: %v (parked: %v)", pending, k.ParkedSummary()))
	}
	if len(o.t.tracked) > 0 {
		k.Violate("C01", "state-table", "table-not-empty-at-idle", fmt.Sprintf("%v", o.t.tracked))
	}
	if !o.r.sc.Cfg.UseHQ && !persistentFaults(o.r.sc) {
		// the queue has drained and its batch timers have fired: every finish it received has become a DELETE of that row
		var kept []string
		for _, nm := range o.t.takenIDs {
			if o.t.finRecv[nm] > 0 && o.lqDeleted[nm] == 0 {
				kept = append(kept, nm)
			}
		}
		if len(kept) > 0 {
			sort.Strings(kept)
			k.Violate("C01", "never-dropped", "finished-row-never-deleted", fmt.Sprintf("pipeline idle, these seeds were reported finished to the local queue but their rows were never deleted: %v", kept))
		}
	}
	// crawl HQ: a hand-out that HQ applied and whose answer never reached the crawler (connection reset after the
	// claim, or the client's timeout) takes those rows out of this crawl; what was planted on them is void
	void := map[string]bool{}
	if o.r.hq != nil {
		for _, c := range o.r.hq.snapshot() {
			if c.Kind == "get" && c.Applied && (c.Lost || c.Fault == "reset-after") {
				for _, u := range c.Out {
					void[uriKey(u.Value)] = true
					k.Probe("c01-hq-handouts-lost")
				}
			}
		}
	}
	if o.r.hq != nil {
		// what HQ handed out and the crawler received reaches the pipeline (whatever happened to a sibling sub-fetch)
		var dropped []string
		for _, c := range o.r.hq.snapshot() {
			if c.Kind == "get" && c.Applied && !c.Lost && c.Fault != "reset-after" {
				for _, u := range c.Out {
					if o.t.taken[u.Value] == 0 && o.t.discarded[u.Value] == 0 {
						dropped = append(dropped, u.Value)
					}
				}
			}
		}
		if len(dropped) > 0 {
			sort.Strings(dropped)
			k.Violate("C01", "never-dropped", "handed-out-seed-never-reached-the-pipeline", fmt.Sprintf("crawl HQ handed these URLs out and the answers were delivered, but they never reached the reactor: %v", dropped))
		}
	}
	var miss []string
	for key, res := range o.r.sc.Site {
		if void[key] {
			continue
		}
		if res.Expect == scen.MustEnd && !o.t.requestedBefore(key, 1<<30) {
			// the expectation was planted through a particular seed (the hub page that links to it, the page that embeds it):
			// it only stands while that seed is a row of the queue (minimisation drops rows)
			if via := res.Tags["outlink-of"] + res.Tags["needed-by"]; via != "" {
				inQueue := false
				for _, q := range o.r.sc.Queue {
					if q.Value == via {
						inQueue = true
					}
				}
				if !inQueue || void[uriKey(via)] {
					continue
				}
			}
			miss = append(miss, key)
		}
	}
	if len(miss) > 0 && len(pending) == 0 {
		sort.Strings(miss)
		k.Violate("C01", "tree-fetched", "shared-url-never-fetched", fmt.Sprintf("%v", miss))
	}
}
func (o *oC01) OnEnd(k *Kernel) {
	if !o.r.stopReturned {
		return
	}
	// a graceful stop may abandon seeds that are still tracked (the queue keeps them), but a seed the reactor has
	// already released is in nobody's books any more: it must have been reported to the queue
	var lost []string
	for _, nm := range o.t.takenIDs {
		if o.t.released[nm] && o.t.finRecv[nm] == 0 {
			lost = append(lost, nm)
		}
	}
	if len(lost) > 0 {
		sort.Strings(lost)
		k.Violate("C01", "never-dropped", "released-seed-never-reported", fmt.Sprintf("after the stop returned: these seeds were released by the reactor (no longer tracked, token given back) but never reported to the queue as finished: %v", lost))
	}
}

// ---------------------------------------------------------------- C02

type oC02 struct {
	r   *e2e
	t   *tracker
	idx *WarcIndex
}

func (o *oC02) Name() string { return "C02" }

func (o *oC02) discarded(ex *exchange) bool {
	for _, s := range o.r.sc.Cfg.DiscardStatus {
		if ex.entry.Status == s {
			return true
		}
	}
	if ex.entry.Status == 403 && ex.hdr != nil && strings.EqualFold(ex.hdr.Get("cf-mitigated"), "challenge") {
		return true
	}
	return false
}

func (o *oC02) OnEvent(k *Kernel, ev *Event) {
	if ev.Point != "fin.finish.send" || o.r.sc.Cfg.AsyncWARC {
		return
	}
	nm := k.names.ItemSeed(firstItem(ev.raw, 0))
	o.idx.Scan()
	for _, e := range o.idx.Errs {
		k.Violate("C02", "warc-structure", "malformed-record", e)
	}
	o.idx.Errs = nil
	// an incomplete member at the tail of a file is a write in progress for some other seed: only complete members count here
	if len(o.idx.TailErr) > 0 {
		k.Probe("c02-write-in-progress-at-finish")
	}
	o.checkSeed(k, nm)
}

func (o *oC02) checkSeed(k *Kernel, nm string) {
	for _, ex := range o.t.bySeed[nm] {
		if ex.entry == nil || ex.err || ex.status == 0 {
			continue // no response reached the crawler
		}
		if !ex.entry.Complete && ex.entry.Fault != "" {
			// the fault plan cut this exchange short: it may be absent or present, never present with other bytes
			k.Probe("c02-relaxed-faulted-exchange")
			continue
		}
		if !ex.entry.Complete {
			// nothing was injected: the crawler itself stopped reading a response it then accepted
			k.Probe("c02-response-abandoned-by-client")
		}
		var req, resp, rev, wrong []*WarcRec
		for _, rec := range o.idx.Recs {
			if rec.TargetKey != ex.key {
				continue
			}
			switch rec.Type {
			case "request":
				req = append(req, rec)
			case "response":
				if rec.PayloadSHA == ex.entry.BodySHA1 && rec.PayloadLen == ex.entry.BodyLen && rec.HTTPStatus == ex.entry.Status {
					resp = append(resp, rec)
				} else {
					wrong = append(wrong, rec)
				}
			case "revisit":
				if rec.DigestHdr == ex.entry.BodySHA1 {
					rev = append(rev, rec)
				} else {
					wrong = append(wrong, rec)
				}
			}
		}
		if o.discarded(ex) {
			k.Probe("c02-discarded-exchange")
			if len(resp)+len(rev) > 0 {
				k.Violate("C02", "discard", "discarded-response-written", fmt.Sprintf("seed %s: %s status %d is rejected by the discard policy but a record for it is in the WARC", nm, ex.url, ex.entry.Status))
			}
			continue
		}
		if len(resp)+len(rev) == 0 {
			detail := fmt.Sprintf("seed %s finished; exchange %s (attempt %d, status %d, %d bytes, sha1 %s) has no matching response/revisit record", nm, ex.url, ex.entry.Attempt, ex.entry.Status, ex.entry.BodyLen, ex.entry.BodySHA1)
			sig := "response-missing"
			if len(wrong) > 0 {
				// another attempt of the same URL may legitimately have different bytes; only flag when no attempt explains it
				explained := true
				for _, wr := range wrong {
					if !o.explainedByOtherAttempt(wr, ex.key) {
						explained = false
						detail += fmt.Sprintf("; a record with different payload exists (status %d len %d sha1 %s)", wr.HTTPStatus, wr.PayloadLen, wr.PayloadSHA)
					}
				}
				if !explained {
					sig = "payload-mismatch"
				}
			}
			k.Violate("C02", "captured", sig, detail)
			continue
		}
		if len(req) == 0 {
			k.Violate("C02", "captured", "request-record-missing", fmt.Sprintf("seed %s: %s has a response record but no request record", nm, ex.url))
		}
		for _, rv := range rev {
			k.Probe("c02-revisit-record")
			found := false
			for _, rec := range o.idx.Recs {
				if rec.Type == "response" && rec.PayloadSHA == rv.DigestHdr {
					found = true
				}
			}
			if !found {
				k.Violate("C02", "captured", "revisit-without-original", fmt.Sprintf("%s: revisit record refers to payload %s that no response record holds", ex.url, rv.DigestHdr))
			}
		}
		if len(resp) > 0 {
			k.Probe("c02-response-verified")
		}
	}
}

func (o *oC02) explainedByOtherAttempt(rec *WarcRec, key string) bool {
	for _, e := range o.r.net.Snapshot() {
		if e.Key == key && (rec.Type == "revisit" && rec.DigestHdr == e.BodySHA1 || rec.PayloadSHA == e.BodySHA1 && rec.PayloadLen == e.BodyLen) {
			return true
		}
		if e.Key == key && !e.Complete {
			return true // a faulted attempt may leave a partial capture
		}
	}
	return false
}
func (o *oC02) OnQuiescent(k *Kernel) {}
func (o *oC02) OnEnd(k *Kernel) {
	// every record in the files must be explained by some exchange (no foreign / corrupted payloads)
	o.idx.Scan()
	for _, e := range o.idx.Errs {
		k.Violate("C02", "warc-structure", "malformed-record", e)
	}
	for _, rec := range o.idx.Recs {
		if rec.Type != "response" || rec.Headers["x-body-error"] != "" {
			continue
		}
		if !o.explainedByOtherAttempt(rec, rec.TargetKey) {
			k.Violate("C02", "captured", "record-not-sent-by-origin", fmt.Sprintf("%s: response record (status %d len %d sha1 %s) matches nothing the origin sent for that URL", rec.TargetURI, rec.HTTPStatus, rec.PayloadLen, rec.PayloadSHA))
		}
	}
	k.Probes["warc-records"] = len(o.idx.Recs)
}

// ---------------------------------------------------------------- C05

type oC05 struct {
	r    *e2e
	regs []*regexp.Regexp
}

func (o *oC05) Name() string { return "C05" }

func containsAny(s string, subs []string) bool {
	for _, x := range subs {
		if x != "" && strings.Contains(s, x) {
			return true
		}
	}
	return false
}

// inScope is the reference predicate written from the statement of C05.
func (o *oC05) inScope(host, text string) (bool, string) {
	cfg := o.r.sc.Cfg
	h := host
	if i := strings.LastIndexByte(h, ':'); i > 0 && !strings.Contains(h[i:], "]") {
		h = h[:i]
	}
	if h == "localhost" || h == "127.0.0.1" || !strings.Contains(h, ".") {
		return false, "host is localhost / loopback / dot-less"
	}
	excl := append([]string{"archive.org", "archive-it.org"}, cfg.ExcludeHosts...)
	if containsAny(host, excl) {
		return false, "host matches an excluded host"
	}
	if containsAny(text, cfg.ExcludeString) {
		return false, "text matches --exclude-string"
	}
	for _, re := range o.regs {
		if re.MatchString(text) {
			return false, "text matches an exclusion regex"
		}
	}
	if len(cfg.IncludeHosts) > 0 || len(cfg.IncludeString) > 0 {
		if !containsAny(host, cfg.IncludeHosts) && !containsAny(text, cfg.IncludeString) {
			return false, "matches none of the include filters"
		}
	}
	return true, ""
}

func (o *oC05) OnEvent(k *Kernel, ev *Event) {
	if ev.Point != "origin.request" {
		return
	}
	key := ev.Args[0]
	att, _ := strconv.Atoi(ev.Args[1])
	for _, e := range o.r.net.Snapshot() {
		if e.Key == key && e.Attempt == att {
			text := "http://" + hostOnly2(e.Host) + e.URI
			if ok, why := o.inScope(e.Host, text); !ok {
				k.Violate("C05", "scope", "out-of-scope-request", fmt.Sprintf("request sent for %s: %s", text, why))
			}
			if e.Method != "GET" {
				k.Probe("non-get-request")
			}
		}
	}
}
func (o *oC05) OnQuiescent(k *Kernel) {}
func (o *oC05) OnEnd(k *Kernel) {
	o.r.net.mu.Lock()
	dials := append([]DialEntry(nil), o.r.net.Dials...)
	o.r.net.mu.Unlock()
	for _, d := range dials {
		h := hostOnly(d.Addr)
		if strings.HasPrefix(h, "10.99.") {
			continue // crawl HQ
		}
		if ok, why := o.inScope(h, "http://"+h+"/"); !ok && why != "matches none of the include filters" && !strings.HasPrefix(why, "text") {
			k.Violate("C05", "scope", "out-of-scope-dial", fmt.Sprintf("connection opened to %s: %s", d.Addr, why))
		}
	}
	for key, res := range o.r.sc.Site {
		if res.Expect == scen.Never {
			for _, e := range o.r.net.Snapshot() {
				if e.Key == key {
					prop := "C06"
					if res.Tags["scope"] == "out" {
						prop = "C05"
					}
					k.Violate(prop, "never", "forbidden-url-requested", fmt.Sprintf("%s was requested although the scenario forbids it (%v)", key, res.Tags))
					break
				}
			}
		}
	}
}

// ---------------------------------------------------------------- C06

type oC06 struct {
	r *e2e
	t *tracker
}

func (o *oC06) Name() string                 { return "C06" }
func (o *oC06) OnEvent(k *Kernel, ev *Event) {}
func (o *oC06) OnQuiescent(k *Kernel)        {}
func (o *oC06) OnEnd(k *Kernel) {
	cfg := o.r.sc.Cfg
	// attempts per URL per visit
	type vk struct{ actor, url string }
	cnt := map[vk]int{}
	maxRetrySeen := map[vk]int{}
	for _, ex := range o.t.all {
		v := vk{ex.actor, ex.url}
		cnt[v]++
		if ex.retry > maxRetrySeen[v] {
			maxRetrySeen[v] = ex.retry
		}
	}
	for v, m := range maxRetrySeen {
		if m > cfg.MaxRetry {
			k.Violate("C06", "retries", "too-many-attempts", fmt.Sprintf("%s attempted with retry index %d > max-retry %d", v.url, m, cfg.MaxRetry))
		}
	}
	// origin side: requests per key bounded by visits * (max-retry+1)
	reqs := map[string]int{}
	for _, e := range o.r.net.Snapshot() {
		reqs[e.Key]++
	}
	visits := map[string]int{}
	for u, n := range o.t.visits {
		visits[reqKey(u)] += n
	}
	for key, n := range reqs {
		v := visits[key]
		if v == 0 {
			v = 1
		}
		if n > v*(cfg.MaxRetry+1) {
			k.Violate("C06", "retries", "too-many-requests", fmt.Sprintf("%s requested %d times in %d visit(s), max-retry %d", key, n, v, cfg.MaxRetry))
		}
		if res := o.r.sc.Site[key]; res != nil {
			if want := res.Tags["attempts"]; want != "" && v == 1 {
				w, _ := strconv.Atoi(want)
				if n != w {
					k.Violate("C06", "retries", "attempt-count", fmt.Sprintf("%s always fails: expected exactly %d attempts (max-retry+1), saw %d", key, w, n))
				}
			}
			if len(cfg.DomainsCrawl) == 0 && res.Level > 3 {
				k.Violate("C06", "depth", "too-deep-asset", fmt.Sprintf("%s at asset level %d was requested", key, res.Level))
			}
			if c := res.Tags["chain"]; c != "" {
				ci, _ := strconv.Atoi(c)
				if ci > cfg.MaxRedirect {
					k.Violate("C06", "redirects", "chain-too-long", fmt.Sprintf("%s is redirect #%d in its chain but max-redirect is %d", key, ci, cfg.MaxRedirect))
				}
			}
		}
	}
	for nm, p := range o.t.passes {
		bound := cfg.MaxRedirect + 6
		if p > bound {
			k.Violate("C06", "passes", "too-many-passes", fmt.Sprintf("seed %s went through the pipeline %d times (bound %d)", nm, p, bound))
		}
	}
	for _, ol := range o.t.outlinks {
		if len(cfg.DomainsCrawl) > 0 {
			// reference: a host matches a crawl domain when it is that domain or a sub-domain of it (label boundary)
			host := ""
			if u, err := url.Parse(ol.raw); err == nil {
				host = u.Hostname()
			}
			match := false
			for _, d := range cfg.DomainsCrawl {
				d = strings.TrimPrefix(d, "http://")
				if host == d || strings.HasSuffix(host, "."+d) {
					match = true
				}
			}
			k.Probe("c06-domains-crawl-outlinks")
			if match {
				if ol.hops != 0 {
					k.Violate("C06", "hops", "domain-outlink-hops-not-reset", fmt.Sprintf("outlink %s matches --domains-crawl %v but carries hops %d", ol.raw, cfg.DomainsCrawl, ol.hops))
				}
			} else {
				if ol.pHops >= cfg.MaxHops {
					k.Violate("C06", "hops", "outlink-beyond-max-hops", fmt.Sprintf("outlink %s does not match --domains-crawl %v and was queued from a page with hops %d, max-hops %d", ol.raw, cfg.DomainsCrawl, ol.pHops, cfg.MaxHops))
				}
				if ol.hops != ol.pHops+1 {
					k.Violate("C06", "hops", "outlink-hops-wrong", fmt.Sprintf("outlink %s (no --domains-crawl match) carries hops %d, parent page has %d", ol.raw, ol.hops, ol.pHops))
				}
			}
			continue
		}
		if ol.pHops >= cfg.MaxHops {
			k.Violate("C06", "hops", "outlink-beyond-max-hops", fmt.Sprintf("outlink %s queued from a page with hops %d, max-hops %d", ol.raw, ol.pHops, cfg.MaxHops))
		}
		if ol.hops != ol.pHops+1 {
			k.Violate("C06", "hops", "outlink-hops-wrong", fmt.Sprintf("outlink %s carries hops %d, parent page has %d", ol.raw, ol.hops, ol.pHops))
		}
	}
}

// ---------------------------------------------------------------- assembly

func oraclesFor(r *e2e) []Oracle {
	t := newTracker(r)
	r.tr = t
	c05 := &oC05{r: r}
	for _, rx := range r.sc.Cfg.ExclusionRegex {
		if re, err := regexp.Compile(rx); err == nil {
			c05.regs = append(c05.regs, re)
		}
	}
	os := []Oracle{t,
		&oC01{r: r, t: t},
		&oC02{r: r, t: t, idx: NewWarcIndex(filepath.Join(r.jobPath, "warcs"))},
		c05,
		&oC06{r: r, t: t},
	}
	os = append(os, moreOracles(r, t)...)
	return os
}
