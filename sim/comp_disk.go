package sim

import (
	"fmt"
	"math/big"
	"syscall"

	"github.com/internetarchive/Zeno/internal/pkg/config"
	"github.com/internetarchive/Zeno/internal/pkg/controler/watchers"
	"github.com/internetarchive/Zeno/internal/pkg/verifhook"
	"github.com/spf13/viper"
)

func init() { compSims["disk"] = simDisk }

const gib = uint64(1) << 30

// refuseRef is the reference decision in exact rational arithmetic.
func refuseRef(total, free uint64, minSpace float64) bool {
	thr := new(big.Rat)
	if minSpace > 0 {
		thr.SetFloat64(minSpace)
		thr.Mul(thr, new(big.Rat).SetUint64(gib))
	} else if total <= 256*gib {
		thr.SetFrac(new(big.Int).Mul(new(big.Int).SetUint64(50*gib), new(big.Int).SetUint64(total)), new(big.Int).SetUint64(256*gib))
	} else {
		thr.SetUint64(50 * gib)
	}
	return new(big.Rat).SetUint64(free).Cmp(thr) < 0
}

// simDisk: the start-up / per-tick threshold decision over boundary-biased (total, free, min-space) triples.
func simDisk(cs *compState) {
	k := cs.k
	if config.Get() == nil {
		config.InitConfig()
	}
	var cur DiskReading
	verifhook.StatfsHandler = func(st *syscall.Statfs_t) {
		st.Blocks, st.Bavail, st.Bfree, st.Bsize = cur.Blocks, cur.Bavail, cur.Bavail, cur.Bsize
	}
	defer func() { verifhook.StatfsHandler = nil }()
	bsizes := []int64{512, 1024, 4096, 65536, 1 << 20}
	n := 40 + cs.Draw(40)
	checked, refused, boundary := 0, 0, 0
	for i := 0; i < n; i++ {
		bs := bsizes[cs.Draw(len(bsizes))]
		var total uint64
		zeroSized := false
		switch cs.Draw(7) {
		case 6:
			zeroSized = true // a volume that reports no blocks at all (pseudo file systems, some network mounts)
		case 0:
			total = 256 * gib
		case 1:
			total = 256*gib + uint64(bs)*uint64(cs.Draw(3))
		case 2:
			total = 256*gib - uint64(bs)*uint64(1+cs.Draw(3))
		case 3:
			total = uint64(1+cs.Draw(4000)) * gib
		case 4:
			total = uint64(1+cs.Draw(1<<20)) * uint64(bs)
		default:
			total = uint64(1+cs.Draw(255)) * gib / 7 * 3
		}
		total -= total % uint64(bs)
		if total == 0 && !zeroSized {
			total = uint64(bs)
		}
		minSpace := 0.0
		switch cs.Draw(5) {
		case 0:
			minSpace = float64(1 + cs.Draw(100))
		case 1:
			minSpace = []float64{0.5, 0.3, 20, 0.001, 1.5, 1e-9}[cs.Draw(6)]
		}
		// the setting reaches the crawler the way --min-space-required does: through viper and InitConfig
		viper.Set("min-space-required", minSpace)
		if err := config.VerifReload(); err != nil {
			panic(err)
		}
		// exact threshold (floor) to bias free space around it
		thr := new(big.Rat)
		if minSpace > 0 {
			thr.SetFloat64(minSpace)
			thr.Mul(thr, new(big.Rat).SetUint64(gib))
		} else if total <= 256*gib {
			thr.SetFrac(new(big.Int).Mul(new(big.Int).SetUint64(50*gib), new(big.Int).SetUint64(total)), new(big.Int).SetUint64(256*gib))
		} else {
			thr.SetUint64(50 * gib)
		}
		fl := new(big.Int).Quo(thr.Num(), thr.Denom()).Uint64()
		var frees []uint64
		base := fl - fl%uint64(bs)
		for d := -2; d <= 2; d++ {
			v := int64(base) + int64(d)*bs
			if v >= 0 && uint64(v) <= total {
				frees = append(frees, uint64(v))
			}
		}
		frees = append(frees, 0, total, uint64(cs.Draw(1<<20))*uint64(bs)%(total+1))
		prevAccept := map[uint64]bool{}
		for _, free := range frees {
			free -= free % uint64(bs)
			cur = DiskReading{Blocks: total / uint64(bs), Bavail: free / uint64(bs), Bsize: bs}
			err := watchers.CheckDiskUsage(".")
			got := err != nil
			want := refuseRef(total, free, minSpace)
			checked++
			if got {
				refused++
			}
			if free >= base-uint64(bs) && free <= base+uint64(bs) {
				boundary++
			}
			if got != want {
				k.Violate("C18", "threshold", "decision-differs-from-reference", fmt.Sprintf("total=%d free=%d bsize=%d min-space-required=%g: crawler refuses=%v, exact rule refuses=%v", total, free, bs, minSpace, got, want))
			}
			prevAccept[free] = !got
		}
		// monotone: more free space never turns an accept into a refusal
		for f1, a1 := range prevAccept {
			for f2, a2 := range prevAccept {
				if f1 < f2 && a1 && !a2 {
					k.Violate("C18", "monotone", "not-monotone", fmt.Sprintf("total=%d min=%g: accepted with free=%d but refused with free=%d", total, minSpace, f1, f2))
				}
			}
		}
	}
	k.Probes["c18-decisions-checked"] += checked
	k.Probes["c18-refusals"] += refused
	k.Probes["c18-boundary-decisions"] += boundary
	viper.Set("min-space-required", 0.0)
	config.VerifReload()
}
