package sim

import (
	"encoding/json"
	"encoding/xml"
	"fmt"
	"net/http"
	"net/url"
	"sort"
	"strings"

	"github.com/internetarchive/Zeno/verifsim/scen"
)

// installBucket serves an S3-style bucket listing statefully (marker / continuation-token pagination, common prefixes).
func installBucket(r *e2e) *scen.BucketSpec {
	raw := r.sc.Extra["bucket"]
	if raw == "" {
		return nil
	}
	var spec scen.BucketSpec
	if json.Unmarshal([]byte(raw), &spec) != nil {
		return nil
	}
	if r.net.Dynamic == nil {
		r.net.Dynamic = map[string]func(req *http.Request) *Response{}
	}
	r.net.Dynamic[spec.Host] = func(req *http.Request) *Response {
		if req.URL.Path != "/" && req.URL.Path != "" {
			return nil // object URLs are not served over plain http
		}
		return bucketPage(&spec, req.URL.Query())
	}
	return &spec
}

func esc(s string) string {
	var sb strings.Builder
	xml.EscapeText(&sb, []byte(s))
	return sb.String()
}

func bucketPage(spec *scen.BucketSpec, q url.Values) *Response {
	prefix := q.Get("prefix")
	delim := q.Get("delimiter")
	start := q.Get("marker")
	v2 := q.Get("list-type") == "2"
	if v2 {
		start = q.Get("continuation-token")
		if sa := q.Get("start-after"); sa != "" && start == "" {
			start = sa
		}
	}
	// entries at this level, in key order: objects and (with a delimiter) common prefixes
	type entry struct {
		key    string
		size   int
		prefix bool
	}
	var entries []entry
	seenPrefix := map[string]bool{}
	for _, o := range spec.Objects {
		if !strings.HasPrefix(o.Key, prefix) {
			continue
		}
		rest := o.Key[len(prefix):]
		if delim != "" {
			if i := strings.Index(rest, delim); i >= 0 {
				cp := prefix + rest[:i+len(delim)]
				if !seenPrefix[cp] {
					seenPrefix[cp] = true
					entries = append(entries, entry{key: cp, prefix: true})
				}
				continue
			}
		}
		entries = append(entries, entry{key: o.Key, size: o.Size})
	}
	sort.Slice(entries, func(i, j int) bool { return entries[i].key < entries[j].key })
	var page []entry
	truncated := false
	for _, e := range entries {
		if start != "" && e.key <= start {
			continue
		}
		if len(page) >= spec.PageSize {
			truncated = true
			break
		}
		page = append(page, e)
	}
	var sb strings.Builder
	sb.WriteString(`<?xml version="1.0" encoding="UTF-8"?>` + "\n" + `<ListBucketResult xmlns="http://s3.amazonaws.com/doc/2006-03-01/">`)
	fmt.Fprintf(&sb, "<Name>simbucket</Name><Prefix>%s</Prefix><MaxKeys>%d</MaxKeys>", esc(prefix), spec.PageSize)
	if !v2 {
		fmt.Fprintf(&sb, "<Marker>%s</Marker>", esc(q.Get("marker")))
	}
	if delim != "" {
		fmt.Fprintf(&sb, "<Delimiter>%s</Delimiter>", esc(delim))
	}
	fmt.Fprintf(&sb, "<IsTruncated>%v</IsTruncated>", truncated)
	last := ""
	for _, e := range page {
		last = e.key
		if e.prefix {
			fmt.Fprintf(&sb, "<CommonPrefixes><Prefix>%s</Prefix></CommonPrefixes>", esc(e.key))
		} else {
			fmt.Fprintf(&sb, "<Contents><Key>%s</Key><LastModified>2020-01-01T00:00:00.000Z</LastModified><Size>%d</Size></Contents>", esc(e.key), e.size)
		}
	}
	if truncated {
		if v2 {
			fmt.Fprintf(&sb, "<NextContinuationToken>%s</NextContinuationToken>", esc(last))
		} else {
			fmt.Fprintf(&sb, "<NextMarker>%s</NextMarker>", esc(last))
		}
	}
	sb.WriteString("</ListBucketResult>")
	return &Response{Status: 200, Headers: [][2]string{{"Content-Type", "application/xml"}, {"Server", spec.Server}}, Body: Body{Text: sb.String()}}
}
