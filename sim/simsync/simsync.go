// Package simsync is what the statement-level instrumented copy of Zeno's stats package is linked against.
package simsync

import "sync/atomic"

// YieldFn is installed by the simulator; every call is a scheduling point.
var YieldFn func()

// Yield marks a statement boundary.
func Yield() {
	if f := YieldFn; f != nil {
		f()
	}
}

// Mutex replaces sync.Mutex in the instrumented copy: a contended Lock yields to the
// simulator instead of blocking in the runtime (a parked lock holder must not stall the bubble).
type Mutex struct{ state int32 }

func (m *Mutex) Lock() {
	for !atomic.CompareAndSwapInt32(&m.state, 0, 1) {
		Yield()
	}
}

func (m *Mutex) Unlock() { atomic.StoreInt32(&m.state, 0) }

func (m *Mutex) RLock()   { m.Lock() }
func (m *Mutex) RUnlock() { m.Unlock() }
