package sim

import (
	"encoding/json"
	"fmt"
	"net/http"
	"net/url"
	goruntime "runtime"
	"sort"
	"strings"
	"time"

	"github.com/internetarchive/Zeno/internal/pkg/preprocessor"
	"github.com/internetarchive/Zeno/internal/pkg/stats"
	"github.com/internetarchive/Zeno/pkg/models"
	"github.com/internetarchive/Zeno/verifsim/scen"
)

// ---------------------------------------------------------------- C07

type oC07 struct {
	r       *e2e
	t       *tracker
	anchors map[string][]string
}

func (o *oC07) Name() string { return "C07" }
func (o *oC07) OnEvent(k *Kernel, ev *Event) {
	if ev.Point != "fin.finish.send" {
		return
	}
	nm := k.names.ItemSeed(firstItem(ev.raw, 0))
	var miss []string
	for key, res := range o.r.sc.Site {
		if res.Seed == nm && res.Tags["c07"] != "" && res.Expect == scen.Must && !o.t.requestedBefore(key, ev.Step) {
			miss = append(miss, fmt.Sprintf("%s (<%s> reference %q)", key, res.Tags["c07"], res.Tags["ref"]))
		}
	}
	if len(miss) > 0 {
		sort.Strings(miss)
		sig := "requisite-not-fetched"
		k.Violate("C07", "requisites", sig, fmt.Sprintf("page %s finished but these planted page requisites were never requested: %v", nm, miss))
	} else {
		k.Probe("c07-page-verified")
	}
	if want := o.anchors[nm]; len(want) > 0 {
		got := map[string]bool{}
		for _, ol := range o.t.outlinks {
			if ol.seed == nm {
				if pu, err := url.Parse(ol.raw); err == nil {
					got[pu.String()] = true
				}
				got[ol.raw] = true
			}
		}
		var missA []string
		for _, w := range want {
			if !got[w] {
				missA = append(missA, w)
			}
		}
		if len(missA) > 0 {
			k.Violate("C07", "anchors", "anchor-not-queued", fmt.Sprintf("page %s: anchor targets not handed to the queue: %v", nm, missA))
		} else {
			k.Probe("c07-anchors-verified")
		}
	}
}
func (o *oC07) OnQuiescent(k *Kernel) {}
func (o *oC07) OnEnd(k *Kernel)       {}

// ---------------------------------------------------------------- C08 (pipeline part)

type seenRec struct {
	step int
	typ  string
}

type oC08 struct {
	r        *e2e
	t        *tracker
	recs     map[string][]seenRec // completed records by URL text
	checkAt  map[string]int       // actor -> step at which its current check started
	checkKey map[string]string
	pending  map[string]string // actor -> key that must be skipped
	inTree   map[string]map[string]int
}

func (o *oC08) Name() string { return "C08" }

func newC08(r *e2e, t *tracker) *oC08 {
	return &oC08{r: r, t: t, recs: map[string][]seenRec{}, checkAt: map[string]int{}, checkKey: map[string]string{}, pending: map[string]string{}, inTree: map[string]map[string]int{}}
}

func urlText(it *models.Item) string {
	if it == nil || it.GetURL() == nil {
		return ""
	}
	return it.GetURL().Raw
}

func (o *oC08) OnEvent(k *Kernel, ev *Event) {
	if o.r != nil && (!o.r.sc.Cfg.Seencheck || o.r.sc.Cfg.UseHQ) {
		return
	}
	switch ev.Point {
	case "seen.check":
		o.flushPending(k, ev.Actor)
		o.checkAt[ev.Actor] = ev.Step
		o.checkKey[ev.Actor] = urlText(firstItem(ev.raw, 0))
	case "seen.result":
		key := urlText(firstItem(ev.raw, 0))
		typ, _ := ev.raw[1].(string)
		found, _ := ev.raw[2].(bool)
		foundType, _ := ev.raw[3].(string)
		start := o.checkAt[ev.Actor]
		before, any := false, false
		beforeSeed := false
		for _, rc := range o.recs[key] {
			any = true
			if rc.step < start {
				before = true
				if rc.typ == "seed" {
					beforeSeed = true
				}
			}
		}
		if before && !found {
			k.Violate("C08", "seen-honoured", "completed-record-not-honoured", fmt.Sprintf("%s: a record of this URL completed before the check started (step %d) but the store reported it unseen", key, start))
		}
		if !any && found {
			k.Violate("C08", "seen-only-if-recorded", "seen-without-record", fmt.Sprintf("%s reported as seen (type %q) although nothing recorded it in this job", key, foundType))
		}
		if found && !(foundType == "asset" && typ == "seed") {
			o.pending[ev.Actor] = key
		}
		if before && found && typ == "asset" && foundType == "seed" {
			_ = beforeSeed
		}
		k.Probe("c08-checks")
		if found {
			k.Probe("c08-checks-found")
		}
	case "seen.recorded":
		key := urlText(firstItem(ev.raw, 0))
		typ, _ := ev.raw[1].(string)
		o.recs[key] = append(o.recs[key], seenRec{step: ev.Step, typ: typ})
	case "seen.skip":
		key := urlText(firstItem(ev.raw, 0))
		if o.pending[ev.Actor] == key {
			delete(o.pending, ev.Actor)
		} else {
			k.Violate("C08", "seen-only-if-recorded", "skipped-without-seen-answer", fmt.Sprintf("%s was marked seen although the store did not report it as seen", key))
		}
		k.Probe("c08-skips")
	case "pre.seencheck.after":
		o.flushPending(k, ev.Actor)
	case "fetch.begin":
		seed, item := firstItem(ev.raw, 0), firstItem(ev.raw, 1)
		if item == nil || item.IsSeed() {
			return
		}
		nm := k.names.ItemSeed(seed)
		if o.inTree[nm] == nil {
			o.inTree[nm] = map[string]int{}
		}
		u := urlText(item)
		o.inTree[nm][u]++
		if o.inTree[nm][u] > 1 {
			k.Violate("C08", "tree-dedupe", "url-fetched-twice-in-one-tree", fmt.Sprintf("seed %s: %s fetched by two different non-seed nodes", nm, u))
		}
	}
}

func (o *oC08) flushPending(k *Kernel, actor string) {
	if key, ok := o.pending[actor]; ok {
		delete(o.pending, actor)
		k.Violate("C08", "seen-honoured", "seen-url-not-skipped", fmt.Sprintf("%s: the store reported it as seen but the item was not skipped", key))
	}
}
func (o *oC08) OnQuiescent(k *Kernel) {}
func (o *oC08) OnEnd(k *Kernel)       {}

// ---------------------------------------------------------------- C09 (pipeline cross-check)

type oC09 struct {
	r *e2e
	t *tracker
}

func (o *oC09) Name() string { return "C09" }

func canonicalShape(s string) string {
	pu, err := url.Parse(s)
	if err != nil {
		return "unparsable: " + err.Error()
	}
	if pu.Scheme != "http" && pu.Scheme != "https" {
		return "scheme " + pu.Scheme
	}
	h := pu.Hostname()
	if h == "localhost" || h == "127.0.0.1" || !strings.Contains(h, ".") {
		return "host " + h
	}
	if pu.Fragment != "" || strings.Contains(s, "#") {
		return "fragment present"
	}
	return ""
}

func (o *oC09) OnEvent(k *Kernel, ev *Event) {
	switch ev.Point {
	case "pre.request":
		it := firstItem(ev.raw, 0)
		if it == nil || it.GetURL() == nil {
			return
		}
		canon := it.GetURL().String()
		if why := canonicalShape(canon); why != "" {
			k.Violate("C09", "shape", "bad-canonical-shape", fmt.Sprintf("%q accepted by normalisation: %s", canon, why))
		}
		// same text in fresh objects under other map-iteration orders must give the same string
		for b := uint64(11); b < 15; b++ {
			goruntime.SimSetBias(b)
			u := &models.URL{Raw: it.GetURL().Raw}
			if err := u.Parse(); err != nil {
				continue
			}
			if s := u.String(); s != canon {
				k.Violate("C09", "deterministic", "canonical-string-depends-on-map-order", fmt.Sprintf("URL text %q renders as %q and as %q", it.GetURL().Raw, canon, s))
				break
			}
		}
		// idempotence
		u2 := &models.URL{Raw: canon}
		if err := preprocessor.NormalizeURL(u2, nil); err != nil {
			k.Violate("C09", "idempotent", "canonical-not-renormalisable", fmt.Sprintf("%q: %v", canon, err))
		} else if u2.String() != canon {
			k.Violate("C09", "idempotent", "canonical-not-fixed-point", fmt.Sprintf("%q re-normalises to %q", canon, u2.String()))
		}
		k.Probe("c09-urls-checked")
	}
}
func (o *oC09) OnQuiescent(k *Kernel) {}
func (o *oC09) OnEnd(k *Kernel) {
	// the request line received by the origin equals the canonical string
	for _, ex := range o.t.all {
		if ex.entry == nil {
			continue
		}
		pu, err := url.Parse(ex.url)
		if err != nil {
			continue
		}
		if pu.RequestURI() != ex.entry.URI {
			k.Violate("C09", "wire", "request-line-differs-from-canonical", fmt.Sprintf("canonical %q but the origin received %q", ex.url, ex.entry.URI))
		}
	}
}

// ---------------------------------------------------------------- C11 (monitor)

type oC11 struct {
	r      *e2e
	before map[string]map[string]int
}

func (o *oC11) Name() string { return "C11" }

func pendingNodes(seed *models.Item) []string {
	var out []string
	seed.Traverse(func(n *models.Item) {
		switch n.GetStatus() {
		case models.ItemFresh, models.ItemPreProcessed, models.ItemArchived:
			out = append(out, itemKey(n)+"["+n.GetStatus().String()+"]")
		}
	})
	return out
}

// wellFormed re-states the structural rules using public getters only.
func wellFormed(seed *models.Item) string {
	ids := map[string]bool{}
	var problem string
	var walk func(n *models.Item, parent *models.Item)
	walk = func(n *models.Item, parent *models.Item) {
		if problem != "" {
			return
		}
		if n.GetID() == "" {
			problem = "node without id"
			return
		}
		if ids[n.GetID()] {
			problem = "duplicate id " + n.GetID()
			return
		}
		ids[n.GetID()] = true
		if n.GetParent() != parent {
			problem = "child " + itemKey(n) + " does not point back to its parent"
			return
		}
		if parent != nil && n.GetSeedVia() != "" {
			problem = "non-seed " + itemKey(n) + " carries a seed-via"
			return
		}
		if n.GetURL() == nil {
			problem = "node without URL"
			return
		}
		ch := n.GetChildren()
		if n.GetStatus() == models.ItemFresh && len(ch) > 0 {
			problem = "fresh node " + itemKey(n) + " has children"
			return
		}
		if len(ch) > 0 {
			switch n.GetStatus() {
			case models.ItemGotChildren, models.ItemGotRedirected, models.ItemCompleted, models.ItemFailed:
			default:
				problem = "node " + itemKey(n) + " has children but status " + n.GetStatus().String()
				return
			}
		}
		if n.GetStatus() == models.ItemGotRedirected && len(ch) > 1 {
			problem = "redirected node " + itemKey(n) + " has several children"
			return
		}
		if n.GetStatus() == models.ItemFresh && parent != nil && parent.GetStatus() != models.ItemGotChildren && parent.GetStatus() != models.ItemGotRedirected {
			problem = "fresh node " + itemKey(n) + " under parent with status " + parent.GetStatus().String()
			return
		}
		for _, c := range ch {
			walk(c, n)
		}
	}
	walk(seed, nil)
	return problem
}

func urlMultiset(seed *models.Item) map[string]int {
	m := map[string]int{}
	seed.Traverse(func(n *models.Item) {
		if n.GetParent() != nil && n.GetURL() != nil && n.GetURL().GetParsed() != nil {
			m[n.GetURL().String()]++
		}
	})
	return m
}

func (o *oC11) OnEvent(k *Kernel, ev *Event) {
	switch ev.Point {
	case "pre.recv", "pre.send", "arch.recv", "arch.send", "post.recv", "post.send", "fin.recv", "fin.checked", "pre.dedupe.after":
	case "pre.dedupe.before":
		if it := firstItem(ev.raw, 0); it != nil {
			o.before[ev.Actor] = urlMultiset(it)
		}
		return
	default:
		return
	}
	seed := firstItem(ev.raw, 0)
	if seed == nil || !seed.IsSeed() {
		return
	}
	if p := wellFormed(seed); p != "" {
		k.Violate("C11", "well-formed", "tree-not-well-formed", fmt.Sprintf("at %s, seed %s: %s", ev.Point, k.names.ItemSeed(seed), p))
	}
	k.Probe("c11-tree-checks")
	if ev.Point == "fin.checked" {
		complete, _ := ev.raw[1].(bool)
		pend := pendingNodes(seed)
		if complete && len(pend) > 0 {
			k.Violate("C11", "completion", "complete-with-pending-node", fmt.Sprintf("seed %s declared complete while %v still await fetching or post-processing", k.names.ItemSeed(seed), pend))
		}
		if !complete && len(pend) == 0 {
			k.Violate("C11", "completion", "incomplete-without-pending-node", fmt.Sprintf("seed %s declared incomplete although no node awaits fetching or post-processing (seed status %s)", k.names.ItemSeed(seed), seed.GetStatus()))
		}
	}
	if ev.Point == "pre.dedupe.after" {
		// NB: same quantum as dedupe.before (both Obs): the multiset "before" was taken at flush time too, so compare only uniqueness here
		after := urlMultiset(seed)
		for u, n := range after {
			if n > 1 {
				k.Violate("C11", "dedupe", "duplicate-url-after-dedupe", fmt.Sprintf("seed %s: %s occurs %d times after de-duplication", k.names.ItemSeed(seed), u, n))
			}
		}
	}
}
func (o *oC11) OnQuiescent(k *Kernel) {}
func (o *oC11) OnEnd(k *Kernel)       {}

// ---------------------------------------------------------------- C17 (pipeline conservation)

type oC17 struct {
	r         *e2e
	fetchEnd  int
	finished  int
	relT      map[string]int64
	okPending map[string]bool
	sumMs     uint64
	nSamples  uint64
	lastRelT  int64
	checkedUp bool
}

func (o *oC17) Name() string { return "C17" }

func okPath(status int, hdr http.Header) bool {
	if status >= 500 || status == 408 || status == 425 || status == 429 {
		return false
	}
	if status == 403 && hdr != nil && strings.EqualFold(hdr.Get("cf-mitigated"), "challenge") {
		return false
	}
	return true
}

func (o *oC17) OnEvent(k *Kernel, ev *Event) {
	switch ev.Point {
	case "release":
		what, _ := ev.raw[0].(string)
		if strings.HasSuffix(what, "@fetch.attempt") {
			o.relT[strings.TrimSuffix(what, "@fetch.attempt")] = ev.T
		}
		if strings.HasSuffix(what, "@fetch.response") {
			actor := strings.TrimSuffix(what, "@fetch.response")
			if o.okPending[actor] {
				// the sample is taken right after the goroutine leaves the hook that follows client.Do
				d := time.Duration(ev.T - o.relT[actor])
				o.sumMs += uint64(d.Milliseconds())
				o.nSamples++
			}
			delete(o.okPending, actor)
		}
	case "fetch.response":
		var resp *http.Response
		var err error
		for _, a := range ev.raw {
			switch v := a.(type) {
			case *http.Response:
				resp = v
			case error:
				err = v
			}
		}
		o.okPending[ev.Actor] = err == nil && resp != nil && okPath(resp.StatusCode, resp.Header)
	case "fetch.archived", "fetch.failed":
		o.fetchEnd++
	case "fin.finish.sent":
		o.finished++
	}
}
func (o *oC17) OnQuiescent(k *Kernel) {}

func (o *oC17) compare(k *Kernel, when string, wantWorkers int) {
	m := stats.GetMapTUI()
	get := func(key string) uint64 {
		v, _ := m[key].(uint64)
		return v
	}
	if got := get("Total URL crawled"); got != uint64(o.fetchEnd) {
		k.Violate("C17", "totals", "urls-crawled-total-wrong", fmt.Sprintf("%s: metric says %d, %d fetches ended", when, got, o.fetchEnd))
	}
	if got := get("Finished seeds"); got != uint64(o.finished) {
		k.Violate("C17", "totals", "seeds-finished-total-wrong", fmt.Sprintf("%s: metric says %d, %d seeds were reported finished", when, got, o.finished))
	}
	for _, g := range []string{"Preprocessor routines", "Archiver routines", "Postprocessor routines"} {
		if got := get(g); got != uint64(wantWorkers) {
			k.Violate("C17", "gauges", "worker-gauge-wrong", fmt.Sprintf("%s: %s = %d, live workers = %d", when, g, got, wantWorkers))
		}
	}
	if o.nSamples > 0 {
		want := float64(o.sumMs) / float64(o.nSamples)
		got, _ := m["Mean HTTP response time"].(float64)
		if got != want {
			k.Violate("C17", "means", "mean-response-time-wrong", fmt.Sprintf("%s: metric %.6f, sum/count of observed samples %.6f (%d samples)", when, got, want, o.nSamples))
		}
	}
	k.Probe("c17-comparisons")
}

func (o *oC17) OnIdle(k *Kernel) {
	o.compare(k, "at idle", max(1, o.r.sc.Cfg.Workers))
}
func (o *oC17) OnEnd(k *Kernel) {
	if o.r.stopReturned {
		o.compare(k, "after stop", 0)
	}
}

func moreE2EOracles(r *e2e, t *tracker) []Oracle {
	anchors := map[string][]string{}
	if r.sc.Extra != nil && r.sc.Extra["anchors"] != "" {
		json.Unmarshal([]byte(r.sc.Extra["anchors"]), &anchors)
	}
	return []Oracle{
		&oC07{r: r, t: t, anchors: anchors},
		newC08(r, t),
		&oC09{r: r, t: t},
		&oC11{r: r, before: map[string]map[string]int{}},
		&oC17{r: r, relT: map[string]int64{}, okPending: map[string]bool{}},
	}
}
