package sim

import (
	"encoding/json"
	"fmt"
	"net/http"
	"net/url"
	goruntime "runtime"
	"sort"
	"strconv"
	"strings"
	"time"

	"github.com/internetarchive/Zeno/internal/pkg/preprocessor"
	"github.com/internetarchive/Zeno/internal/pkg/source/lq/sqlc_model"
	"github.com/internetarchive/Zeno/internal/pkg/stats"
	"github.com/internetarchive/Zeno/pkg/models"
	"github.com/internetarchive/Zeno/verifsim/scen"
	"github.com/internetarchive/gocrawlhq"
)

// ---------------------------------------------------------------- C07

type oC07 struct {
	r       *e2e
	t       *tracker
	anchors map[string][]string
}

func (o *oC07) Name() string { return "C07" }
func (o *oC07) OnEvent(k *Kernel, ev *Event) {
	if ev.Point != "fin.finish.send" {
		return
	}
	nm := k.names.ItemSeed(firstItem(ev.raw, 0))
	var miss []string
	for key, res := range o.r.sc.Site {
		if res.Seed == nm && res.Tags["c07"] != "" && res.Expect == scen.Must && !o.t.requestedBefore(key, ev.Step) {
			miss = append(miss, fmt.Sprintf("%s (<%s> reference %q)", key, res.Tags["c07"], res.Tags["ref"]))
		}
	}
	if len(miss) > 0 {
		sort.Strings(miss)
		sig := "requisite-not-fetched"
		k.Violate("C07", "requisites", sig, fmt.Sprintf("page %s finished but these planted page requisites were never requested: %v", nm, miss))
	} else {
		k.Probe("c07-page-verified")
	}
	if want := o.anchors[nm]; len(want) > 0 {
		got := map[string]bool{}
		for _, ol := range o.t.outlinks {
			if ol.seed == nm {
				if pu, err := url.Parse(ol.raw); err == nil {
					got[pu.String()] = true
				}
				got[ol.raw] = true
			}
		}
		var missA []string
		for _, w := range want {
			if !got[w] {
				missA = append(missA, w)
			}
		}
		if len(missA) > 0 {
			k.Violate("C07", "anchors", "anchor-not-queued", fmt.Sprintf("page %s: anchor targets not handed to the queue: %v", nm, missA))
		} else {
			k.Probe("c07-anchors-verified")
		}
	}
}
func (o *oC07) OnQuiescent(k *Kernel) {}
func (o *oC07) OnEnd(k *Kernel)       {}

// ---------------------------------------------------------------- C08 (pipeline part)

type seenRec struct {
	step int
	typ  string
}

type oC08 struct {
	r        *e2e
	t        *tracker
	recs     map[string][]seenRec // completed records by URL text
	checkAt  map[string]int       // actor -> step at which its current check started
	checkKey map[string]string
	pending  map[string]string // actor -> key that must be skipped
	inTree   map[string]map[string]int
}

func (o *oC08) Name() string { return "C08" }

func newC08(r *e2e, t *tracker) *oC08 {
	return &oC08{r: r, t: t, recs: map[string][]seenRec{}, checkAt: map[string]int{}, checkKey: map[string]string{}, pending: map[string]string{}, inTree: map[string]map[string]int{}}
}

func urlText(it *models.Item) string {
	if it == nil || it.GetURL() == nil {
		return ""
	}
	return it.GetURL().Raw
}

func (o *oC08) OnEvent(k *Kernel, ev *Event) {
	if o.r != nil && (!o.r.sc.Cfg.Seencheck || o.r.sc.Cfg.UseHQ) {
		return
	}
	switch ev.Point {
	case "seen.check":
		o.flushPending(k, ev.Actor)
		o.checkAt[ev.Actor] = ev.Step
		o.checkKey[ev.Actor] = urlText(firstItem(ev.raw, 0))
	case "seen.result":
		key := urlText(firstItem(ev.raw, 0))
		typ, _ := ev.raw[1].(string)
		found, _ := ev.raw[2].(bool)
		foundType, _ := ev.raw[3].(string)
		start := o.checkAt[ev.Actor]
		before, any := false, false
		beforeSeed := false
		for _, rc := range o.recs[key] {
			any = true
			if rc.step < start {
				before = true
				if rc.typ == "seed" {
					beforeSeed = true
				}
			}
		}
		if before && !found {
			k.Violate("C08", "seen-honoured", "completed-record-not-honoured", fmt.Sprintf("%s: a record of this URL completed before the check started (step %d) but the store reported it unseen", key, start))
		}
		if !any && found {
			k.Violate("C08", "seen-only-if-recorded", "seen-without-record", fmt.Sprintf("%s reported as seen (type %q) although nothing recorded it in this job", key, foundType))
		}
		if found && !(foundType == "asset" && typ == "seed") {
			o.pending[ev.Actor] = key
		}
		if before && found && typ == "asset" && foundType == "seed" {
			_ = beforeSeed
		}
		k.Probe("c08-checks")
		if found {
			k.Probe("c08-checks-found")
		}
	case "seen.recorded":
		key := urlText(firstItem(ev.raw, 0))
		typ, _ := ev.raw[1].(string)
		o.recs[key] = append(o.recs[key], seenRec{step: ev.Step, typ: typ})
	case "seen.skip":
		key := urlText(firstItem(ev.raw, 0))
		if o.pending[ev.Actor] == key {
			delete(o.pending, ev.Actor)
		} else {
			k.Violate("C08", "seen-only-if-recorded", "skipped-without-seen-answer", fmt.Sprintf("%s was marked seen although the store did not report it as seen", key))
		}
		k.Probe("c08-skips")
	case "pre.seencheck.after":
		o.flushPending(k, ev.Actor)
	case "fetch.begin":
		seed, item := firstItem(ev.raw, 0), firstItem(ev.raw, 1)
		if item == nil || item.IsSeed() {
			return
		}
		nm := k.names.ItemSeed(seed)
		if o.inTree[nm] == nil {
			o.inTree[nm] = map[string]int{}
		}
		u := urlText(item)
		o.inTree[nm][u]++
		if o.inTree[nm][u] > 1 {
			k.Violate("C08", "tree-dedupe", "url-fetched-twice-in-one-tree", fmt.Sprintf("seed %s: %s fetched by two different non-seed nodes", nm, u))
		}
	}
}

func (o *oC08) flushPending(k *Kernel, actor string) {
	if key, ok := o.pending[actor]; ok {
		delete(o.pending, actor)
		k.Violate("C08", "seen-honoured", "seen-url-not-skipped", fmt.Sprintf("%s: the store reported it as seen but the item was not skipped", key))
	}
}
func (o *oC08) OnQuiescent(k *Kernel) {}
func (o *oC08) OnEnd(k *Kernel)       {}

// ---------------------------------------------------------------- C09 (pipeline cross-check)

type oC09 struct {
	r *e2e
	t *tracker
}

func (o *oC09) Name() string { return "C09" }

func canonicalShape(s string) string {
	pu, err := url.Parse(s)
	if err != nil {
		return "unparsable: " + err.Error()
	}
	if pu.Scheme != "http" && pu.Scheme != "https" {
		return "scheme " + pu.Scheme
	}
	h := pu.Hostname()
	if h == "localhost" || h == "127.0.0.1" || !strings.Contains(h, ".") {
		return "host " + h
	}
	if pu.Fragment != "" || strings.Contains(s, "#") {
		return "fragment present"
	}
	return ""
}

func (o *oC09) OnEvent(k *Kernel, ev *Event) {
	switch ev.Point {
	case "pre.request":
		it := firstItem(ev.raw, 0)
		if it == nil || it.GetURL() == nil {
			return
		}
		canon := it.GetURL().String()
		if why := canonicalShape(canon); why != "" {
			k.Violate("C09", "shape", "bad-canonical-shape", fmt.Sprintf("%q accepted by normalisation: %s", canon, why))
		}
		// same text in fresh objects under other map-iteration orders must give the same string
		for b := uint64(11); b < 15; b++ {
			goruntime.SimSetBias(b)
			u := &models.URL{Raw: it.GetURL().Raw}
			if err := u.Parse(); err != nil {
				continue
			}
			if s := u.String(); s != canon {
				k.Violate("C09", "deterministic", "canonical-string-depends-on-map-order", fmt.Sprintf("URL text %q renders as %q and as %q", it.GetURL().Raw, canon, s))
				break
			}
		}
		// idempotence
		u2 := &models.URL{Raw: canon}
		if err := preprocessor.NormalizeURL(u2, nil); err != nil {
			k.Violate("C09", "idempotent", "canonical-not-renormalisable", fmt.Sprintf("%q: %v", canon, err))
		} else if u2.String() != canon {
			k.Violate("C09", "idempotent", "canonical-not-fixed-point", fmt.Sprintf("%q re-normalises to %q", canon, u2.String()))
		}
		k.Probe("c09-urls-checked")
	}
}
func (o *oC09) OnQuiescent(k *Kernel) {}
func (o *oC09) OnEnd(k *Kernel) {
	// the request line received by the origin equals the canonical string
	for _, ex := range o.t.all {
		if ex.entry == nil {
			continue
		}
		pu, err := url.Parse(ex.url)
		if err != nil {
			continue
		}
		if pu.RequestURI() != ex.entry.URI {
			k.Violate("C09", "wire", "request-line-differs-from-canonical", fmt.Sprintf("canonical %q but the origin received %q", ex.url, ex.entry.URI))
		}
	}
}

// ---------------------------------------------------------------- C11 (monitor)

type oC11 struct {
	r      *e2e
	before map[string]map[string]int
}

func (o *oC11) Name() string { return "C11" }

func pendingNodes(seed *models.Item) []string {
	var out []string
	seed.Traverse(func(n *models.Item) {
		switch n.GetStatus() {
		case models.ItemFresh, models.ItemPreProcessed, models.ItemArchived:
			out = append(out, itemKey(n)+"["+n.GetStatus().String()+"]")
		}
	})
	return out
}

// wellFormed re-states the structural rules using public getters only.
func wellFormed(seed *models.Item) string {
	ids := map[string]bool{}
	var problem string
	var walk func(n *models.Item, parent *models.Item)
	walk = func(n *models.Item, parent *models.Item) {
		if problem != "" {
			return
		}
		if n.GetID() == "" {
			problem = "node without id"
			return
		}
		if ids[n.GetID()] {
			problem = "duplicate id " + n.GetID()
			return
		}
		ids[n.GetID()] = true
		if n.GetParent() != parent {
			problem = "child " + itemKey(n) + " does not point back to its parent"
			return
		}
		if parent != nil && n.GetSeedVia() != "" {
			problem = "non-seed " + itemKey(n) + " carries a seed-via"
			return
		}
		if n.GetURL() == nil {
			problem = "node without URL"
			return
		}
		ch := n.GetChildren()
		if n.GetStatus() == models.ItemFresh && len(ch) > 0 {
			problem = "fresh node " + itemKey(n) + " has children"
			return
		}
		if len(ch) > 0 {
			switch n.GetStatus() {
			case models.ItemGotChildren, models.ItemGotRedirected, models.ItemCompleted, models.ItemFailed:
			default:
				problem = "node " + itemKey(n) + " has children but status " + n.GetStatus().String()
				return
			}
		}
		if n.GetStatus() == models.ItemGotRedirected && len(ch) > 1 {
			problem = "redirected node " + itemKey(n) + " has several children"
			return
		}
		if n.GetStatus() == models.ItemFresh && parent != nil && parent.GetStatus() != models.ItemGotChildren && parent.GetStatus() != models.ItemGotRedirected {
			problem = "fresh node " + itemKey(n) + " under parent with status " + parent.GetStatus().String()
			return
		}
		for _, c := range ch {
			walk(c, n)
		}
	}
	walk(seed, nil)
	return problem
}

func urlMultiset(seed *models.Item) map[string]int {
	m := map[string]int{}
	seed.Traverse(func(n *models.Item) {
		if n.GetParent() != nil && n.GetURL() != nil && n.GetURL().GetParsed() != nil {
			m[n.GetURL().String()]++
		}
	})
	return m
}

func (o *oC11) OnEvent(k *Kernel, ev *Event) {
	switch ev.Point {
	case "pre.recv", "pre.send", "arch.recv", "arch.send", "post.recv", "post.send", "fin.recv", "fin.checked", "pre.dedupe.after":
	case "pre.dedupe.before":
		if it := firstItem(ev.raw, 0); it != nil {
			o.before[ev.Actor] = urlMultiset(it)
		}
		return
	default:
		return
	}
	seed := firstItem(ev.raw, 0)
	if seed == nil || !seed.IsSeed() {
		return
	}
	if p := wellFormed(seed); p != "" {
		k.Violate("C11", "well-formed", "tree-not-well-formed", fmt.Sprintf("at %s, seed %s: %s", ev.Point, k.names.ItemSeed(seed), p))
	}
	k.Probe("c11-tree-checks")
	if ev.Point == "fin.checked" {
		complete, _ := ev.raw[1].(bool)
		pend := pendingNodes(seed)
		if complete && len(pend) > 0 {
			k.Violate("C11", "completion", "complete-with-pending-node", fmt.Sprintf("seed %s declared complete while %v still await fetching or post-processing", k.names.ItemSeed(seed), pend))
		}
		if !complete && len(pend) == 0 {
			k.Violate("C11", "completion", "incomplete-without-pending-node", fmt.Sprintf("seed %s declared incomplete although no node awaits fetching or post-processing (seed status %s)", k.names.ItemSeed(seed), seed.GetStatus()))
		}
	}
	if ev.Point == "pre.dedupe.after" {
		// NB: same quantum as dedupe.before (both Obs): the multiset "before" was taken at flush time too, so compare only uniqueness here
		after := urlMultiset(seed)
		for u, n := range after {
			if n > 1 {
				k.Violate("C11", "dedupe", "duplicate-url-after-dedupe", fmt.Sprintf("seed %s: %s occurs %d times after de-duplication", k.names.ItemSeed(seed), u, n))
			}
		}
	}
}
func (o *oC11) OnQuiescent(k *Kernel) {}
func (o *oC11) OnEnd(k *Kernel)       {}

// ---------------------------------------------------------------- C17 (pipeline conservation)

type oC17 struct {
	r         *e2e
	fetchEnd  int
	finished  int
	relT      map[string]int64
	okPending map[string]bool
	sumMs     uint64
	nSamples  uint64
	lastRelT  int64
	checkedUp bool
}

func (o *oC17) Name() string { return "C17" }

func okPath(status int, hdr http.Header) bool {
	if status >= 500 || status == 408 || status == 425 || status == 429 {
		return false
	}
	if status == 403 && hdr != nil && strings.EqualFold(hdr.Get("cf-mitigated"), "challenge") {
		return false
	}
	return true
}

func (o *oC17) OnEvent(k *Kernel, ev *Event) {
	switch ev.Point {
	case "release":
		what, _ := ev.raw[0].(string)
		if strings.HasSuffix(what, "@fetch.attempt") {
			o.relT[strings.TrimSuffix(what, "@fetch.attempt")] = ev.T
		}
		if strings.HasSuffix(what, "@fetch.response") {
			actor := strings.TrimSuffix(what, "@fetch.response")
			if o.okPending[actor] {
				// the sample is taken right after the goroutine leaves the hook that follows client.Do
				d := time.Duration(ev.T - o.relT[actor])
				o.sumMs += uint64(d.Milliseconds())
				o.nSamples++
			}
			delete(o.okPending, actor)
		}
	case "fetch.response":
		var resp *http.Response
		var err error
		for _, a := range ev.raw {
			switch v := a.(type) {
			case *http.Response:
				resp = v
			case error:
				err = v
			}
		}
		o.okPending[ev.Actor] = err == nil && resp != nil && okPath(resp.StatusCode, resp.Header)
	case "fetch.archived", "fetch.failed":
		o.fetchEnd++
	case "fin.finish.sent":
		o.finished++
	}
}
func (o *oC17) OnQuiescent(k *Kernel) {}

func (o *oC17) compare(k *Kernel, when string, wantWorkers int) {
	m := stats.GetMapTUI()
	get := func(key string) uint64 {
		v, _ := m[key].(uint64)
		return v
	}
	if got := get("Total URL crawled"); got != uint64(o.fetchEnd) {
		k.Violate("C17", "totals", "urls-crawled-total-wrong", fmt.Sprintf("%s: metric says %d, %d fetches ended", when, got, o.fetchEnd))
	}
	if got := get("Finished seeds"); got != uint64(o.finished) {
		k.Violate("C17", "totals", "seeds-finished-total-wrong", fmt.Sprintf("%s: metric says %d, %d seeds were reported finished", when, got, o.finished))
	}
	for _, g := range []string{"Preprocessor routines", "Archiver routines", "Postprocessor routines"} {
		if got := get(g); got != uint64(wantWorkers) {
			k.Violate("C17", "gauges", "worker-gauge-wrong", fmt.Sprintf("%s: %s = %d, live workers = %d", when, g, got, wantWorkers))
		}
	}
	if o.nSamples > 0 {
		want := float64(o.sumMs) / float64(o.nSamples)
		got, _ := m["Mean HTTP response time"].(float64)
		if got != want {
			k.Violate("C17", "means", "mean-response-time-wrong", fmt.Sprintf("%s: metric %.6f, sum/count of observed samples %.6f (%d samples)", when, got, want, o.nSamples))
		}
	}
	k.Probe("c17-comparisons")
}

func (o *oC17) OnIdle(k *Kernel) {
	o.compare(k, "at idle", max(1, o.r.sc.Cfg.Workers))
}
func (o *oC17) OnEnd(k *Kernel) {
	if o.r.stopReturned {
		o.compare(k, "after stop", 0)
	}
}

// ---------------------------------------------------------------- C18 (temporal behaviour of the disk watchdog)

type oC18 struct {
	r        *e2e
	last     DiskReading
	haveLast bool
	paused   bool // what the watchdog should believe
	expect   string
}

func (o *oC18) Name() string { return "C18" }
func (o *oC18) OnEvent(k *Kernel, ev *Event) {
	switch ev.Point {
	case "disk.reading":
		if len(ev.raw) == 3 {
			fmt.Sscan(ev.raw[0].(string), &o.last.Blocks)
			fmt.Sscan(ev.raw[1].(string), &o.last.Bavail)
			fmt.Sscan(ev.raw[2].(string), &o.last.Bsize)
			o.haveLast = true
		}
	case "disk.verdict":
		if !o.haveLast || len(ev.raw) < 2 {
			return
		}
		if o.expect != "" {
			k.Violate("C18", "temporal", "watchdog-missed-transition", fmt.Sprintf("expected the disk watchdog to call %s after the previous tick, but the next tick arrived first", o.expect))
			o.expect = ""
		}
		total := o.last.Blocks * uint64(o.last.Bsize)
		free := o.last.Bavail * uint64(o.last.Bsize)
		want := refuseRef(total, free, o.r.sc.Cfg.MinSpaceGiB)
		got := ev.raw[0] != nil
		if got != want {
			k.Violate("C18", "threshold", "tick-decision-differs-from-reference", fmt.Sprintf("tick with total=%d free=%d min=%g: watchdog low-space=%v, exact rule=%v", total, free, o.r.sc.Cfg.MinSpaceGiB, got, want))
		}
		k.Probe("c18-ticks-judged")
		if want && !o.paused {
			o.expect = "pause"
			o.paused = true
			k.Probe("c18-expected-pauses")
		} else if !want && o.paused {
			o.expect = "resume"
			o.paused = false
			k.Probe("c18-expected-resumes")
		}
	case "pause.pause.enter":
		if ev.Actor == "disk.watcher" {
			if o.expect != "pause" {
				k.Violate("C18", "temporal", "unexpected-pause", "the disk watchdog paused the pipeline although the last reading was not below the threshold (or it was already paused)")
			}
			o.expect = ""
		}
	case "pause.resume.enter":
		if ev.Actor == "disk.watcher" {
			if o.expect != "resume" {
				k.Violate("C18", "temporal", "unexpected-resume", "the disk watchdog resumed the pipeline although the last reading was still below the threshold (or it was not paused)")
			}
			o.expect = ""
		}
	case "disk.exit":
		o.expect = ""
	}
}
func (o *oC18) OnQuiescent(k *Kernel) {}
func (o *oC18) OnEnd(k *Kernel)       {}

func moreE2EOracles(r *e2e, t *tracker) []Oracle {
	anchors := map[string][]string{}
	if r.sc.Extra != nil && r.sc.Extra["anchors"] != "" {
		json.Unmarshal([]byte(r.sc.Extra["anchors"]), &anchors)
	}
	c19 := &oC19{r: r, t: t, bucket: installBucket(r)}
	if r.sc.Extra != nil && r.sc.Extra["docs"] != "" {
		json.Unmarshal([]byte(r.sc.Extra["docs"]), &c19.plants)
	}
	var extra []Oracle
	c16 := &oC16{r: r}
	extra = append(extra, c16)
	if r.sc.Extra != nil && r.sc.Extra["footprint"] != "" {
		r.c16 = c16 // also sample the idle footprint before the stop-at-idle epilogue
	}
	return append(extra, []Oracle{
		c19,
		&oC10{r: r, t: t},
		&oC07{r: r, t: t, anchors: anchors},
		newC08(r, t),
		&oC08hq{r: r, asked: map[string]map[string]bool{}, answer: map[string]map[string]bool{}, failed: map[string]bool{}},
		&oC09{r: r, t: t},
		&oC11{r: r, before: map[string]map[string]int{}},
		&oC17{r: r, relT: map[string]int64{}, okPending: map[string]bool{}},
		&oC18{r: r},
		&oC15{r: r, t: t, finIDs: map[string]bool{}, discIDs: map[string]bool{}, rowHops: map[string]int{}, rowVia: map[string]string{}},
	}...)
}

// ---------------------------------------------------------------- C15 (outlinks and finish acks reach the queue)

type emitted struct {
	raw, via string
	hops     int
}

type oC15 struct {
	r       *e2e
	t       *tracker
	out     []emitted
	finIDs  map[string]bool
	discIDs map[string]bool
	lqAdded []emitted
	addErr  []string
	rowHops map[string]int // HQ/LQ row id -> hops the queue stored
	rowVia  map[string]string
	// local queue: rows handed out and not yet deleted, by URL text
	outstanding map[string]map[string]bool // value -> row ids
	lqAcked     map[string]bool            // row id -> a DELETE for it succeeded
}

func (o *oC15) Name() string { return "C15" }

func (o *oC15) OnEvent(k *Kernel, ev *Event) {
	switch ev.Point {
	case "post.outlink":
		if it := firstItem(ev.raw, 0); it != nil {
			o.out = append(o.out, emitted{raw: it.GetURL().Raw, via: it.GetSeedVia(), hops: it.GetURL().GetHops()})
			// via must be the page the link was found on
			if seed := firstItem(ev.raw, 1); seed != nil {
				okVia := false
				seed.Traverse(func(n *models.Item) {
					if n.GetURL() != nil && n.GetURL().GetParsed() != nil && n.GetURL().String() == it.GetSeedVia() {
						okVia = true
					}
				})
				if !okVia {
					k.Violate("C15", "via", "outlink-via-not-parent-page", fmt.Sprintf("outlink %s carries via %q which is not a page of the tree it was found in (seed %s)", it.GetURL().Raw, it.GetSeedVia(), k.names.ItemSeed(seed)))
				}
			}
		}
	case "fin.finish.sent":
		if it := firstItem(ev.raw, 0); it != nil {
			o.finIDs[it.GetID()] = true
		}
	case "lq.sender.discard", "hq.sender.discard":
		if it := firstItem(ev.raw, 0); it != nil {
			o.discIDs[it.GetID()] = true
		}
	case "lq.prod.add":
		if len(ev.raw) > 0 {
			if us, ok := ev.raw[0].([]sqlc_model.Url); ok {
				for _, u := range us {
					o.lqAdded = append(o.lqAdded, emitted{raw: u.Value, via: u.Via, hops: int(u.Hops)})
				}
			}
		}
	case "lq.prod.add.error":
		o.addErr = append(o.addErr, fmt.Sprint(ev.Args))
	case "lq.sender.recv":
		// a URL that is still in the queue (handed out, not deleted yet) must not be handed out under a second row
		if len(ev.raw) > 0 {
			if u, ok := ev.raw[0].(*sqlc_model.Url); ok && u != nil {
				if o.outstanding == nil {
					o.outstanding = map[string]map[string]bool{}
				}
				if ids := o.outstanding[u.Value]; len(ids) > 0 && !ids[u.ID] {
					k.Violate("C15", "no-duplicate", "url-handed-out-twice-while-in-queue", fmt.Sprintf("%s was handed out again (new row) while the row handed out before had not been deleted from the local queue yet", u.Value))
				}
				if o.outstanding[u.Value] == nil {
					o.outstanding[u.Value] = map[string]bool{}
				}
				o.outstanding[u.Value][u.ID] = true
				k.Probe("c15-lq-handouts")
			}
		}
	case "lq.fin.deleted":
		if len(ev.raw) > 1 && ev.raw[1] == nil {
			if us, ok := ev.raw[0].([]sqlc_model.Url); ok {
				for _, u := range us {
					if o.lqAcked == nil {
						o.lqAcked = map[string]bool{}
					}
					o.lqAcked[u.ID] = true
					for v, ids := range o.outstanding {
						if ids[u.ID] {
							delete(ids, u.ID)
							if len(ids) == 0 {
								delete(o.outstanding, v)
							}
						}
					}
				}
			}
		}
	case "lq.fetch.got":
		if len(ev.raw) > 0 {
			if us, ok := ev.raw[0].([]sqlc_model.Url); ok {
				for _, u := range us {
					o.rowHops[u.ID] = int(u.Hops)
					o.rowVia[u.ID] = u.Via
				}
			}
		}
	case "hq.fetch.got":
		if len(ev.raw) > 0 {
			if us, ok := ev.raw[0].([]gocrawlhq.URL); ok {
				for _, u := range us {
					o.rowHops[u.ID] = strings.Count(u.Path, "L")
					o.rowVia[u.ID] = u.Via
				}
			}
		}
	case "reactor.insert.stored":
		if it := firstItem(ev.raw, 0); it != nil {
			if h, ok := o.rowHops[it.GetID()]; ok {
				if it.GetURL().GetHops() != h {
					k.Violate("C15", "hops-round-trip", "hops-lost-on-the-way-back", fmt.Sprintf("queue row %s stored %d hops, the seed built from it carries %d", k.names.ItemSeed(it), h, it.GetURL().GetHops()))
				}
				if it.GetSeedVia() != o.rowVia[it.GetID()] {
					k.Violate("C15", "hops-round-trip", "via-lost-on-the-way-back", fmt.Sprintf("queue row %s stored via %q, the seed carries %q", k.names.ItemSeed(it), o.rowVia[it.GetID()], it.GetSeedVia()))
				}
				k.Probe("c15-round-trips-checked")
			}
		}
	}
}
func (o *oC15) OnQuiescent(k *Kernel) {}

func tupleKey(e emitted) string { return e.raw + "\x00" + e.via + "\x00" + strconv.Itoa(e.hops) }

func (o *oC15) OnIdle(k *Kernel) {
	if o.r.hq != nil {
		calls := o.r.hq.snapshot()
		applied := map[string]int{}
		excessLegal := false
		deleted := map[string]bool{}
		for _, c := range calls {
			if c.Kind == "add" && (c.Fault == "reset-after" || c.Lost) {
				excessLegal = true
			}
			if !c.Applied {
				continue
			}
			switch c.Kind {
			case "add":
				for _, u := range c.URLs {
					applied[tupleKey(emitted{raw: u.Value, via: u.Via, hops: strings.Count(u.Path, "L")})]++
					if strings.Trim(u.Path, "L") != "" {
						k.Violate("C15", "intact", "bad-path-encoding", fmt.Sprintf("add for %s carries path %q", u.Value, u.Path))
					}
				}
			case "delete":
				for _, u := range c.URLs {
					deleted[u.ID] = true
				}
			}
		}
		want := map[string]int{}
		for _, e := range o.out {
			want[tupleKey(e)]++
		}
		for key, n := range want {
			if applied[key] < n {
				parts := strings.Split(key, "\x00")
				k.Violate("C15", "delivered", "outlink-never-reached-hq", fmt.Sprintf("outlink %s (via %s, hops %s) was emitted %d time(s) but applied at crawl HQ %d time(s); HQ calls: %s", parts[0], parts[1], parts[2], n, applied[key], summarizeCalls(calls)))
			}
			if applied[key] > n && !excessLegal {
				k.Violate("C15", "delivered", "outlink-duplicated-at-hq", fmt.Sprintf("%q applied %d times, emitted %d times, and no call was applied-then-lost", key, applied[key], n))
			}
		}
		for key := range applied {
			if want[key] == 0 {
				k.Violate("C15", "intact", "hq-received-something-never-emitted", fmt.Sprintf("crawl HQ was given %q which the pipeline never emitted in that form", strings.ReplaceAll(key, "\x00", " | ")))
			}
		}
		for id := range o.finIDs {
			if !deleted[id] {
				k.Violate("C15", "delivered", "finish-ack-never-reached-hq", fmt.Sprintf("seed %s was finished but crawl HQ never got a delete for it; HQ calls: %s", nameOr(k, id), summarizeCalls(calls)))
			}
		}
		for id := range deleted {
			if !o.finIDs[id] && !o.discIDs[id] {
				k.Violate("C15", "intact", "hq-delete-for-unfinished", fmt.Sprintf("crawl HQ got a delete for %s which was never finished", nameOr(k, id)))
			}
		}
		k.Probes["c15-hq-calls"] += len(calls)
		k.Probes["c15-outlinks-emitted"] += len(o.out)
		return
	}
	// local queue
	if !persistentFaults(o.r.sc) {
		// every finished seed is acknowledged to the queue by its id (failing deletes are repeated until they succeed)
		for id := range o.finIDs {
			if !o.lqAcked[id] {
				k.Violate("C15", "delivered", "finish-ack-never-reached-queue", fmt.Sprintf("seed %s was finished but the local queue never deleted its row although the crawl drained", nameOr(k, id)))
			}
		}
	}
	added := map[string]int{}
	for _, e := range o.lqAdded {
		added[tupleKey(e)]++
	}
	for _, e := range o.out {
		if added[tupleKey(e)] == 0 {
			k.Violate("C15", "delivered", "outlink-never-reached-queue", fmt.Sprintf("outlink %s (via %s, hops %d) was emitted but never handed to the local queue in that form", e.raw, e.via, e.hops))
		}
	}
	for _, e := range o.addErr {
		k.Violate("C15", "delivered", "queue-batch-dropped", "a batch of outlinks was dropped by the local queue: "+e)
	}
	// the queue has drained: every outlink handed to it must have come back out as a seed (once per distinct text)
	for _, e := range o.out {
		if o.t.taken[e.raw] == 0 && o.t.taken[e.raw+"~2"] == 0 {
			k.Violate("C15", "delivered", "outlink-lost-in-queue", fmt.Sprintf("outlink %s (via %s, hops %d) was handed to the local queue but never came back out of it although the queue drained", e.raw, e.via, e.hops))
		}
	}
	k.Probes["c15-outlinks-emitted"] += len(o.out)
}

func nameOr(k *Kernel, id string) string {
	if nm, ok := k.names.Lookup(id); ok {
		return nm
	}
	return id
}

func summarizeCalls(calls []*HQCall) string {
	var sb strings.Builder
	for _, c := range calls {
		if c.Kind == "get" && len(c.Out) == 0 {
			continue
		}
		fmt.Fprintf(&sb, "%s#%d", c.Kind, c.N)
		if c.Fault != "" {
			sb.WriteString("[" + c.Fault + "]")
		}
		if !c.Applied {
			sb.WriteString("!")
		}
		sb.WriteByte(' ')
	}
	return sb.String()
}

func (o *oC15) OnEnd(k *Kernel) {
	if o.r.hq != nil || !o.r.stopReturned {
		return
	}
	rows, err := QueueRows(o.r.jobPath)
	if err != nil {
		return
	}
	seen := map[string]bool{}
	for _, row := range rows {
		if seen[row["value"]] {
			k.Violate("C15", "no-duplicate", "url-queued-twice", row["value"])
		}
		seen[row["value"]] = true
	}
}

// ---------------------------------------------------------------- C19 (structured documents, bucket walk)

type oC19 struct {
	r      *e2e
	t      *tracker
	plants []scen.DocPlant
	bucket *scen.BucketSpec
}

func (o *oC19) Name() string { return "C19" }

func (o *oC19) queued(seed string) map[string]bool {
	got := map[string]bool{}
	for _, ol := range o.t.outlinks {
		if seed == "" || ol.seed == seed {
			got[ol.raw] = true
			if pu, err := url.Parse(ol.raw); err == nil {
				got[pu.String()] = true
			}
		}
	}
	return got
}

func (o *oC19) OnEvent(k *Kernel, ev *Event) {
	if ev.Point != "fin.finish.send" || len(o.plants) == 0 {
		return
	}
	nm := k.names.ItemSeed(firstItem(ev.raw, 0))
	for _, p := range o.plants {
		if p.Seed != nm {
			continue
		}
		q := o.queued(nm)
		var missA, missO []string
		for _, a := range p.Assets {
			fetched := o.t.requestedBefore(uriKey(a), ev.Step)
			if p.Kind == "sitemap" {
				if !fetched && !q[a] {
					missO = append(missO, a)
				}
			} else if !fetched {
				missA = append(missA, a)
			}
		}
		for _, u := range p.Outlinks {
			if !q[u] {
				missO = append(missO, u)
			}
		}
		if len(missA) > 0 {
			k.Violate("C19", "documents", p.Kind+"-asset-not-fetched", fmt.Sprintf("%s document %s: planted URLs with a file extension were never fetched as assets: %v", p.Kind, p.Doc, missA))
		}
		if len(missO) > 0 {
			k.Violate("C19", "documents", p.Kind+"-link-not-queued", fmt.Sprintf("%s document %s (max-hops %d): planted URLs were never queued as outlinks: %v", p.Kind, p.Doc, o.r.sc.Cfg.MaxHops, missO))
		}
		if len(missA)+len(missO) == 0 {
			k.Probe("c19-document-verified-" + p.Kind)
		}
	}
}
func (o *oC19) OnQuiescent(k *Kernel) {}
func (o *oC19) OnEnd(k *Kernel)       {}

func (o *oC19) OnIdle(k *Kernel) {
	if o.bucket == nil {
		return
	}
	q := o.queued("")
	var missing, zero []string
	nonZero := 0
	for _, ob := range o.bucket.Objects {
		u := (&url.URL{Scheme: "https", Host: o.bucket.Host, Path: "/" + ob.Key}).String()
		if ob.Size > 0 {
			nonZero++
			if !q[u] {
				missing = append(missing, ob.Key)
			}
		} else if q[u] {
			zero = append(zero, ob.Key)
		}
	}
	listings := 0
	seen := map[string]int{}
	for _, e := range o.r.net.Snapshot() {
		if hostOnly2(e.Host) == o.bucket.Host && (strings.HasPrefix(e.URI, "/?") || e.URI == "/") {
			listings++
			seen[e.URI]++
		}
	}
	desc := fmt.Sprintf("bucket api=%s delimiter=%v page-size=%d objects=%d (non-empty %d), %d listing requests", o.bucket.API, o.bucket.Delimiter, o.bucket.PageSize, len(o.bucket.Objects), nonZero, listings)
	if len(missing) > 0 {
		sort.Strings(missing)
		k.Violate("C19", "bucket-walk", "bucket-object-never-queued", fmt.Sprintf("%s: the walk ended but these non-empty objects were never queued: %v", desc, missing))
	}
	if len(zero) > 0 {
		k.Violate("C19", "bucket-walk", "empty-object-queued", fmt.Sprintf("%s: zero-size objects were queued: %v", desc, zero))
	}
	prefixes := map[string]bool{}
	for _, ob := range o.bucket.Objects {
		parts := strings.Split(ob.Key, "/")
		for i := 1; i < len(parts); i++ {
			prefixes[strings.Join(parts[:i], "/")] = true
		}
	}
	bound := (len(o.bucket.Objects)/o.bucket.PageSize+2)*(len(prefixes)+1) + 4
	if listings > bound {
		k.Violate("C19", "bucket-walk", "too-many-listing-requests", fmt.Sprintf("%s: bound %d", desc, bound))
	}
	for u, n := range seen {
		if n > 1 && o.r.sc.Cfg.Seencheck {
			k.Violate("C19", "bucket-walk", "listing-page-requested-twice", fmt.Sprintf("%s: %s requested %d times", desc, u, n))
		}
	}
	k.Probe("c19-bucket-walks-" + o.bucket.API)
	k.Probes["c19-listing-requests"] += listings
}

// ---------------------------------------------------------------- C10 (blast radius of hostile input)

type oC10 struct {
	r *e2e
	t *tracker
}

func (o *oC10) Name() string                 { return "C10" }
func (o *oC10) OnEvent(k *Kernel, ev *Event) {}
func (o *oC10) OnQuiescent(k *Kernel)        {}
func (o *oC10) OnEnd(k *Kernel)              {}
func (o *oC10) OnIdle(k *Kernel) {
	hostile := 0
	for _, res := range o.r.sc.Site {
		if res.Tags["hostile"] != "" {
			hostile++
		}
	}
	if hostile == 0 {
		return
	}
	var pending []string
	for _, nm := range o.t.takenIDs {
		if o.t.finRecv[nm] == 0 {
			pending = append(pending, nm)
		}
	}
	if len(pending) > 0 {
		sort.Strings(pending)
		k.Violate("C10", "confined", "seed-stuck-after-hostile-input", fmt.Sprintf("the crawl went idle (or nothing moved for %v of simulated time) with seeds never finished: %v; parked: %v", hangBound, pending, k.ParkedSummary()))
	}
	var miss []string
	for key, res := range o.r.sc.Site {
		if res.Tags["bystander"] != "" && res.Expect == scen.Must && o.t.taken[res.Seed] > 0 && !o.t.requestedBefore(key, 1<<30) {
			miss = append(miss, key)
		}
	}
	if len(miss) > 0 {
		sort.Strings(miss)
		k.Violate("C10", "confined", "bystander-url-not-fetched", fmt.Sprintf("URLs of well-behaved seeds were never fetched: %v", miss))
	}
	k.Probes["c10-hostile-documents"] += hostile
	for _, e := range o.r.net.Snapshot() {
		if res := o.r.sc.Site[e.Key]; res != nil && res.Tags["hostile"] != "" {
			k.Probe("c10-hostile-served-" + res.Tags["hostile"])
		}
	}
}

// ---------------------------------------------------------------- C08 (crawl-HQ seencheck)

type oC08hq struct {
	r      *e2e
	asked  map[string]map[string]bool // actor -> URLs asked in the call in progress
	answer map[string]map[string]bool // actor -> URLs the HQ returned (= not seen)
	failed map[string]bool
}

func (o *oC08hq) Name() string { return "C08hq" }
func (o *oC08hq) OnEvent(k *Kernel, ev *Event) {
	if !o.r.sc.Cfg.UseHQ {
		return
	}
	switch ev.Point {
	case "hq.seen.ask":
		m := map[string]bool{}
		if len(ev.raw) > 1 {
			if us, ok := ev.raw[1].([]gocrawlhq.URL); ok {
				for _, u := range us {
					m[u.Value] = true
				}
			}
		}
		o.asked[ev.Actor] = m
		delete(o.answer, ev.Actor)
		delete(o.failed, ev.Actor)
	case "hq.seen.answer":
		m := map[string]bool{}
		if len(ev.raw) > 1 {
			if us, ok := ev.raw[1].([]gocrawlhq.URL); ok {
				for _, u := range us {
					m[u.Value] = true
				}
			}
		}
		o.answer[ev.Actor] = m
		if len(ev.raw) > 2 && ev.raw[2] != nil {
			o.failed[ev.Actor] = true
		}
	case "hq.seen.skip":
		it := firstItem(ev.raw, 0)
		if it == nil {
			return
		}
		u := it.GetURL().Raw
		// the statement identifies URLs by their canonical form: either spelling of this item's URL counts
		in := func(m map[string]bool) bool { return m[u] || m[it.GetURL().String()] }
		k.Probe("c08-hq-skips")
		if o.failed[ev.Actor] {
			k.Violate("C08", "seen-only-if-recorded", "skipped-after-failed-hq-seencheck", fmt.Sprintf("%s marked seen although the crawl-HQ seencheck call failed", u))
			return
		}
		if !it.IsChild() && o.r.hq != nil {
			// a seed or redirect target is only skipped when the store has seen its URL as a seed before
			calls := o.r.hq.snapshot()
			for i := len(calls) - 1; i >= 0; i-- {
				c := calls[i]
				if c.Kind != "seencheck" || c.Prior == nil {
					continue
				}
				prior, ok := c.Prior[it.GetURL().String()]
				if !ok {
					prior, ok = c.Prior[u]
				}
				if ok {
					if prior == "asset" {
						k.Violate("C08", "seen-only-if-recorded", "redirect-target-skipped-though-only-seen-as-asset", fmt.Sprintf("%s is a seed or redirect target, crawl HQ had only seen this URL as an asset, yet it was skipped as already seen", u))
					}
					break
				}
			}
		}
		if !in(o.asked[ev.Actor]) {
			k.Violate("C08", "seen-only-if-recorded", "skipped-without-asking-hq", fmt.Sprintf("%s marked seen but it was not part of the seencheck request", u))
		} else if in(o.answer[ev.Actor]) {
			k.Violate("C08", "seen-only-if-recorded", "skipped-although-hq-said-unseen", fmt.Sprintf("%s marked seen although crawl HQ returned it as not seen", u))
		}
	case "pre.request":
		// a URL that HQ omitted from its answer (= seen) must not be fetched
		it := firstItem(ev.raw, 0)
		if it == nil || it.IsSeed() {
			return
		}
		u := it.GetURL().Raw
		in := func(m map[string]bool) bool { return m[u] || m[it.GetURL().String()] }
		if in(o.asked[ev.Actor]) && o.answer[ev.Actor] != nil && !in(o.answer[ev.Actor]) && !o.failed[ev.Actor] {
			k.Violate("C08", "seen-honoured", "hq-seen-url-not-skipped", fmt.Sprintf("crawl HQ reported %s as seen (omitted from its answer) but a request was built for it", u))
		}
		k.Probe("c08-hq-requests-judged")
	}
}
func (o *oC08hq) OnQuiescent(k *Kernel) {}
func (o *oC08hq) OnEnd(k *Kernel)       {}
