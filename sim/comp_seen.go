package sim

import (
	"fmt"
	"path/filepath"

	"github.com/internetarchive/Zeno/internal/pkg/preprocessor"
	"github.com/internetarchive/Zeno/internal/pkg/preprocessor/seencheck"
	"github.com/internetarchive/Zeno/pkg/models"
)

func init() { compSims["seen"] = simSeen }

var seenIter int

// simSeen: several checkers run the local seen-store (real leveldb) on trees whose URLs overlap.
func simSeen(cs *compState) {
	k := cs.k
	seenIter++
	dir := filepath.Join(".", fmt.Sprintf("seen-%d", seenIter))
	if err := seencheck.Start(dir); err != nil {
		k.Violate("C08", "start", "seencheck-start-failed", err.Error())
		return
	}
	k.Oracles = append(k.Oracles, newC08(nil, nil))
	pool := []string{
		"http://site.example/a.png", "http://SITE.example/a.png", "http://site.example/p?a=1&b=2", "http://site.example/p?b=2&a=1",
		"http://site.example/p?a=1&b=2&a=3", "http://site.example/q?x=%41&y=a+b", "http://site.example/q?x=A&y=a%20b", "http://other.example/a.png",
		"http://site.example/page.html", "http://site.example/dir/../page.html", "http://site.example/r?u=http%3A%2F%2Fx.example%2F&z=9", "http://site.example/z?k=&j=1",
	}
	nCheckers := 2 + cs.Draw(3)
	cs.sample["checkers"] = nCheckers
	for c := 0; c < nCheckers; c++ {
		actor := fmt.Sprintf("checker%d", c)
		rounds := 1 + cs.Draw(4)
		cs.Go(actor, func() {
			for r := 0; r < rounds; r++ {
				k.Park(actor, "comp.seed.begin", r)
				su := &models.URL{Raw: pool[cs.Draw(len(pool))]}
				if err := preprocessor.NormalizeURL(su, nil); err != nil {
					continue
				}
				seed := models.NewItem(fmt.Sprintf("%s-seed-%d", actor, r), su, "")
				cs.Enter(actor, "SeencheckItem(seed)")
				seencheck.SeencheckItem(seed)
				cs.Leave(actor)
				k.Park(actor, "comp.seed.end", r)
				if seed.GetStatus() == models.ItemSeen {
					continue
				}
				// children: assets or one redirect target
				from := models.ItemGotChildren
				n := 1 + cs.Draw(4)
				if cs.Chance(1, 4) {
					from, n = models.ItemGotRedirected, 1
				}
				used := map[string]bool{}
				for j := 0; j < n; j++ {
					cu := &models.URL{Raw: pool[cs.Draw(len(pool))]}
					if err := preprocessor.NormalizeURL(cu, su); err != nil || used[cu.Raw] {
						continue
					}
					used[cu.Raw] = true
					child := models.NewItem(fmt.Sprintf("%s-c-%d-%d", actor, r, j), cu, "")
					seed.AddChild(child, from)
				}
				if len(seed.GetChildren()) == 0 {
					continue
				}
				k.Park(actor, "comp.children.begin", r)
				cs.Enter(actor, "SeencheckItem(children)")
				seencheck.SeencheckItem(seed)
				cs.Leave(actor)
				if from != models.ItemGotChildren || !cs.Chance(1, 2) {
					continue
				}
				// several assets redirect: their targets (not children: checked as "seed") share one level and one call
				nt := 0
				for j, ch := range seed.GetChildren() {
					if ch.GetStatus() != models.ItemFresh || cs.Chance(1, 4) {
						continue
					}
					tu := &models.URL{Raw: pool[cs.Draw(len(pool))]}
					if err := preprocessor.NormalizeURL(tu, ch.GetURL()); err != nil {
						continue
					}
					if ch.AddChild(models.NewItem(fmt.Sprintf("%s-t-%d-%d", actor, r, j), tu, ""), models.ItemGotRedirected) == nil {
						nt++
					}
				}
				if nt == 0 {
					continue
				}
				k.Probe("c08-redirect-targets-in-one-call")
				k.Park(actor, "comp.targets.begin", r)
				cs.Enter(actor, "SeencheckItem(targets)")
				seencheck.SeencheckItem(seed)
				cs.Leave(actor)
			}
		})
	}
	reason := cs.runUntilQuiet(nil)
	if reason == "max-steps" && !k.Spun() {
		k.Probe("comp-step-budget-exhausted")
	} else if reason != "done" {
		k.Violate("C08", "progress", "seencheck-blocked", fmt.Sprintf("%s: %v", reason, cs.Blocked()))
	}
	k.Drain()
	seencheck.Close()
}
