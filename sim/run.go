package sim

import (
	"context"
	"database/sql"
	"encoding/json"
	"fmt"
	"io"
	"net"
	"os"
	"path/filepath"
	"regexp"
	goruntime "runtime"
	"runtime/debug"
	"strings"
	"sync"
	"syscall"
	"testing"
	"testing/synctest"
	"time"

	"github.com/CorentinB/warc"
	"github.com/google/uuid"
	"github.com/internetarchive/Zeno/internal/pkg/config"
	"github.com/internetarchive/Zeno/internal/pkg/controler"
	"github.com/internetarchive/Zeno/internal/pkg/controler/pause"
	"github.com/internetarchive/Zeno/internal/pkg/postprocessor/domainscrawl"
	"github.com/internetarchive/Zeno/internal/pkg/verifhook"
	"github.com/ncruces/go-sqlite3"
	_ "github.com/ncruces/go-sqlite3/driver"
	_ "github.com/ncruces/go-sqlite3/embed"
	"github.com/tetratelabs/wazero"
	"github.com/tetratelabs/wazero/api"
)

type e2e struct {
	in             *RunInput
	sc             *Scenario
	k              *Kernel
	net            *SimNet
	rec            *RunRecord
	ctl            []*ctlState
	disk           int
	stopFiredAt    time.Duration
	lqMu           sync.Mutex
	lqCalls        map[string]int
	stopFired      bool
	stopReturned   bool
	started        bool
	idleTold       bool
	tr             *tracker
	warcWrites     int
	wmu            sync.Mutex
	parkWarcWrites bool
	killAtWrite    int
	killTorn       int
	c04            *oC04
	hq             *HQModel
	c16            *oC16
	jobPath        string
	summary        map[string]any
}

type ctlState struct {
	a     CtlAction
	count int
	fired bool
	done  bool
}

func initSqliteCache() {
	dir := os.Getenv("VERIF_WAZERO_CACHE")
	if dir == "" {
		return
	}
	cache, err := wazero.NewCompilationCacheWithDir(dir)
	if err != nil {
		return
	}
	sqlite3.RuntimeConfig = wazero.NewRuntimeConfig().WithMemoryLimitPages(4096).WithCoreFeatures(api.CoreFeaturesV2).WithCompilationCache(cache)
}

func applyConfig(sc *Scenario, jobDir string) error {
	if err := config.InitConfig(); err != nil {
		return err
	}
	c := config.Get()
	x := sc.Cfg
	c.Job = "simjob"
	c.WorkersCount = max(1, x.Workers)
	c.MaxConcurrentAssets = max(1, x.MaxConcurrentAssets)
	c.MaxRetry = x.MaxRetry
	c.MaxRedirect = x.MaxRedirect
	c.MaxHops = x.MaxHops
	c.DisableSeencheck = !x.Seencheck
	c.DisableRateLimit = !x.RateLimit
	c.RateLimitCapacity = x.RLCapacity
	c.RateLimitRefillRate = x.RLRate
	c.RateLimitCleanupFrequency = time.Duration(x.RLCleanupSec) * time.Second
	if c.RateLimitCleanupFrequency == 0 {
		c.RateLimitCleanupFrequency = 5 * time.Minute
	}
	if x.RateLimit && c.RateLimitCapacity == 0 {
		c.RateLimitCapacity, c.RateLimitRefillRate = 150, 50
	}
	if x.Proxy {
		c.Proxy = "sim://proxy"
	}
	c.WARCWriteAsync = x.AsyncWARC
	c.WARCPoolSize = max(1, x.PoolSize)
	c.WARCQueueSize = x.WARCQueueSize
	if c.WARCQueueSize == 0 {
		c.WARCQueueSize = -1
	}
	c.WARCOnDisk = x.OnDisk
	c.DisableLocalDedupe = x.DisableLocalDedupe
	c.WARCDedupeSize = x.DedupeSize
	if c.WARCDedupeSize == 0 {
		c.WARCDedupeSize = 1024
	}
	c.WARCDiscardStatus = x.DiscardStatus
	c.WARCPrefix = "ZENO"
	c.WARCSize = x.WARCSizeMB
	if c.WARCSize == 0 {
		c.WARCSize = 1024
	}
	c.IncludeHosts = x.IncludeHosts
	c.IncludeString = x.IncludeString
	c.ExcludeHosts = x.ExcludeHosts
	c.ExcludeString = x.ExcludeString
	c.DisableAssetsCapture = x.DisableAssetsCapture
	c.CaptureAlternatePages = x.CaptureAlternate
	c.DisableHTMLTag = x.DisableHTMLTag
	c.DomainsCrawl = x.DomainsCrawl
	c.HTTPTimeout = x.HTTPTimeoutSec
	if c.HTTPTimeout == 0 {
		c.HTTPTimeout = -1
	}
	c.HTTPReadDeadline = 60
	c.MinSpaceRequired = x.MinSpaceGiB
	c.UseHQ = x.UseHQ
	c.HQBatchSize = x.HQBatchSize
	if c.UseHQ {
		c.HQAddress = "http://10.99.0.1"
		c.HQKey, c.HQSecret, c.HQProject = "k", "s", "simproject"
		c.HQBatchConcurrency = max(1, x.HQBatchConcurrency)
		if c.HQBatchSize == 0 {
			c.HQBatchSize = c.WorkersCount
		}
		if c.HQBatchSize < c.HQBatchConcurrency {
			c.HQBatchSize = c.HQBatchConcurrency // each sub-fetch asks for batch / concurrency rows
		}
	}
	c.NoStdoutLogging, c.NoStderrLogging, c.NoFileLogging = true, true, true
	c.UserAgent = "ZenoSim/1.0"
	if len(x.ExclusionRegex) > 0 {
		f := filepath.Join(jobDir, "exclusions.txt")
		os.WriteFile(f, []byte(strings.Join(x.ExclusionRegex, "\n")+"\n"), 0o644)
		c.ExclusionFile = []string{f}
	}
	if x.TempInWarcs {
		c.WARCTempDir = filepath.Join("jobs", c.Job, "warcs")
	}
	if err := config.GenerateCrawlConfig(); err != nil {
		return err
	}
	_ = domainscrawl.Enabled
	_ = regexp.MustCompile
	return nil
}

// preloadQueue writes the scenario's queue rows into the job's lq.db using the schema Zeno creates.
func preloadQueue(jobPath string, rows []QRow) error {
	if err := os.MkdirAll(jobPath, 0o755); err != nil {
		return err
	}
	db, err := sql.Open("sqlite3", "file:"+filepath.Join(jobPath, "lq.db"))
	if err != nil {
		return err
	}
	defer db.Close()
	ddl := `CREATE TABLE IF NOT EXISTS urls (
    id TEXT NOT NULL PRIMARY KEY,
    value TEXT NOT NULL,
    via TEXT DEFAULT '' NOT NULL,
    hops INTEGER NOT NULL DEFAULT 0,
    status TEXT NOT NULL DEFAULT 'FRESH' CHECK (status IN ('FRESH', 'CLAIMED', 'DONE')),
    timestamp INTEGER NOT NULL DEFAULT (strftime('%s', 'now'))
);
CREATE UNIQUE INDEX IF NOT EXISTS urls_value ON urls (value);
CREATE INDEX IF NOT EXISTS urls_status ON urls (status);`
	if _, err := db.Exec(ddl); err != nil {
		return err
	}
	for _, r := range rows {
		if _, err := db.Exec(`INSERT OR IGNORE INTO urls (id, value, via, hops) VALUES (?, ?, ?, ?)`, r.ID, r.Value, r.Via, r.Hops); err != nil {
			return fmt.Errorf("preload %q: %w", r.Value, err)
		}
	}
	return nil
}

// QueueRows reads the rows left in lq.db (used by oracles at the end and by the restart phase).
func QueueRows(jobPath string) ([]map[string]string, error) {
	db, err := sql.Open("sqlite3", "file:"+filepath.Join(jobPath, "lq.db"))
	if err != nil {
		return nil, err
	}
	defer db.Close()
	rs, err := db.Query(`SELECT id, value, via, hops, status FROM urls ORDER BY rowid`)
	if err != nil {
		return nil, err
	}
	defer rs.Close()
	var out []map[string]string
	for rs.Next() {
		var id, value, via, status string
		var hops int
		if err := rs.Scan(&id, &value, &via, &hops, &status); err != nil {
			return nil, err
		}
		out = append(out, map[string]string{"id": id, "value": value, "via": via, "hops": fmt.Sprint(hops), "status": status})
	}
	return out, rs.Err()
}

type detReader struct{ x uint64 }

func (d *detReader) Read(p []byte) (int, error) {
	for i := range p {
		d.x += 0x9e3779b97f4a7c15
		z := d.x
		z = (z ^ (z >> 30)) * 0xbf58476d1ce4e5b9
		z = (z ^ (z >> 27)) * 0x94d049bb133111eb
		p[i] = byte(z ^ (z >> 31))
	}
	return len(p), nil
}

func writeJSON(path string, v any) {
	b, _ := json.Marshal(v)
	tmp := path + ".tmp"
	os.WriteFile(tmp, b, 0o644)
	os.Rename(tmp, path)
}

func (r *e2e) writeRecord() {
	k := r.k
	rec := r.rec
	rec.Hash = k.HashHex()
	rec.Steps = k.Steps()
	rec.Events = k.Events()
	rec.SimNs = int64(k.Now())
	rec.Pairs = k.Pairs()
	rec.PairList = k.PairList()
	rec.Anon = k.AnonCount()
	rec.Tape = k.tape.Rec
	rec.Violations = k.Violations
	rec.Probes = k.Probes
	rec.Faults = k.Faults
	rec.Parked = k.ParkedSummary()
	if r.net != nil {
		rec.Requests = len(r.net.Snapshot())
	}
	r.summary["point_counts"] = k.PointCount
	r.summary["warc_writes"] = r.warcWrites
	rec.Summary = r.summary
	if r.in.KeepLog {
		rec.Log = k.Log
	}
	b, _ := json.Marshal(rec)
	tmp := r.in.Out + ".tmp"
	os.WriteFile(tmp, b, 0o644)
	os.Rename(tmp, r.in.Out)
}

func (r *e2e) controllersOnEvent(ev *Event) {
	for _, c := range r.ctl {
		if c.fired || c.a.Trigger.Point == "" {
			continue
		}
		if ev.Point != c.a.Trigger.Point {
			continue
		}
		if c.a.Trigger.Actor != "" && !strings.HasPrefix(ev.Actor, c.a.Trigger.Actor) {
			continue
		}
		c.count++
	}
}

type ctlOracle struct{ r *e2e }

func (o ctlOracle) Name() string                 { return "ctl" }
func (o ctlOracle) OnEvent(k *Kernel, ev *Event) { o.r.controllersOnEvent(ev) }
func (o ctlOracle) OnQuiescent(k *Kernel)        {}
func (o ctlOracle) OnEnd(k *Kernel)              {}

func (r *e2e) actionDone(name string) bool {
	for _, c := range r.ctl {
		if c.a.Name == name {
			return c.done
		}
	}
	return false
}

func (r *e2e) idle() bool {
	sec := r.sc.IdleSec
	if sec == 0 {
		sec = 12
	}
	if !r.k.OnlyIdleParked() {
		return false
	}
	if r.k.IdleFor() >= hangBound {
		return true // nothing but idle pollers for a very long time: whatever is still tracked is stuck
	}
	if r.tr != nil && len(r.tr.tracked) > 0 {
		return false // seeds in flight (e.g. waiting on a slow origin)
	}
	return r.k.IdleFor() >= time.Duration(sec)*time.Second
}

const hangBound = 30 * time.Minute

func (r *e2e) fire(c *ctlState) {
	c.fired = true
	k := r.k
	name := "ctl:" + c.a.Name
	k.Probe("ctl-" + c.a.Kind)
	switch c.a.Kind {
	case "stop":
		if r.stopFired {
			return // one stop request per run (a second signal makes Zeno exit, it does not call Stop twice)
		}
		r.stopFired = true
		r.stopFiredAt = k.Now()
		go func() {
			k.Park(name, "ctl.stop.begin")
			controler.Stop()
			r.stopReturned = true
			c.done = true
			k.Note(name, "ctl.stop.returned")
		}()
	case "pause":
		go func() {
			k.Park(name, "ctl.pause.begin")
			pause.Pause(c.a.Arg)
			c.done = true
			k.Note(name, "ctl.pause.returned")
		}()
	case "resume":
		go func() {
			k.Park(name, "ctl.resume.begin")
			pause.Resume()
			c.done = true
			k.Note(name, "ctl.resume.returned")
		}()
	case "resume-pause":
		// one controller resumes and pauses again at once (a watchdog whose reading flips back): the second
		// pause can be broadcast before the workers released by the resume have run
		go func() {
			k.Park(name, "ctl.resume.begin")
			pause.Resume()
			pause.Pause(c.a.Arg)
			c.done = true
			k.Note(name, "ctl.pause.returned")
		}()
	case "kill":
		if c.a.Trigger.AtStep > 0 {
			k.Fault("kill-at-scheduler-step")
		} else {
			k.Fault("kill-at-hook-point")
		}
		r.k.End("killed")
		r.rec.EndReason = "killed"
		r.finish()
		r.writeRecord()
		syscall.Kill(os.Getpid(), syscall.SIGKILL)
		select {}
	case "end":
		c.done = true
		k.End("ctl-end")
	case "disk":
		fmt.Sscan(c.a.Arg, &r.disk)
		c.done = true
	}
}

func (r *e2e) hook() {
	k := r.k
	for _, c := range r.ctl {
		if c.fired {
			continue
		}
		t := c.a.Trigger
		ok := false
		switch {
		case t.Point != "":
			n := t.Nth
			if n == 0 {
				n = 1
			}
			ok = c.count >= n
		case t.Idle:
			ok = r.idle()
		case t.AtStep > 0:
			ok = k.Steps() >= t.AtStep
		case t.After != "":
			ok = r.actionDone(t.After)
		}
		if ok && t.After != "" && t.Point != "" {
			ok = r.actionDone(t.After)
		}
		if ok {
			r.fire(c)
		}
	}
	if !r.idleTold && !r.stopFired && r.idle() {
		r.idleTold = true
		k.Probe("reached-idle")
		for _, o := range k.Oracles {
			if io, ok := o.(IdleOracle); ok {
				io.OnIdle(k)
			}
		}
	}
	if r.sc.StopAtIdle && !r.stopFired && r.idle() && (r.c16 == nil || r.c16.ready(k)) {
		c := &ctlState{a: CtlAction{Name: "stop-at-idle", Kind: "stop"}}
		r.ctl = append(r.ctl, c)
		r.fire(c)
	}
	if r.stopFired {
		if r.stopReturned {
			k.End("stopped")
		} else if k.Now()-r.stopFiredAt > stopBound {
			k.End("stop-hung")
		}
	}
}

const stopBound = 20 * time.Minute

// persistentFaults reports whether the scenario injects a fault that never ends (then "drains eventually" is not expected).
func persistentFaults(sc *Scenario) bool {
	for _, plan := range sc.LQFaults {
		if len(plan) > 0 && strings.HasSuffix(plan[len(plan)-1], "*") {
			return true
		}
	}
	if sc.HQ != nil {
		for _, plan := range sc.HQ.Faults {
			if len(plan) > 0 && strings.HasSuffix(plan[len(plan)-1], "*") {
				return true
			}
		}
	}
	return false
}

func (r *e2e) finish() {
	for _, o := range r.k.Oracles {
		o.OnEnd(r.k)
	}
}

// RunE2E runs the whole Zeno pipeline under the simulator. One call per process.
func RunE2E(t *testing.T, in *RunInput) {
	sc := in.Scenario
	rec := &RunRecord{Property: in.Property, Seed: in.Seed, Phase: in.Phase}
	r := &e2e{in: in, sc: sc, rec: rec, summary: map[string]any{}}
	if err := os.Chdir(in.JobDir); err != nil {
		t.Fatalf("chdir: %v", err)
	}
	initSqliteCache()
	uuid.SetRand(&detReader{x: in.Seed})
	defer func() {
		if p := recover(); p != nil {
			rec.Panic = fmt.Sprintf("%v\n%s", p, debug.Stack())
			rec.EndReason = "harness-panic"
			if r.k != nil {
				r.writeRecord()
			}
			os.Exit(3)
		}
	}()
	synctest.Test(t, func(t *testing.T) {
		time.Sleep(123456789 * time.Nanosecond)
		goruntime.SimBubbleGlobals(true)
		goruntime.SimSetBias(1) // maps created from here on get a fixed hash seed: their iteration order is owned by the simulator
		var tape *Tape
		if in.Replay {
			tape = NewReplayTape(in.Tape)
		} else {
			tape = NewTape(in.Seed)
		}
		k := NewKernel(tape)
		r.k = k
		k.resolver = zenoResolver
		k.idleFn = zenoIdle
		k.keepLog = in.KeepLog
		if sc.Sched.MaxSteps > 0 {
			k.MaxSteps = sc.Sched.MaxSteps
		}
		if sc.Sched.MaxSimSec > 0 {
			k.MaxSimTime = time.Duration(sc.Sched.MaxSimSec) * time.Second
		}
		if sc.Sched.AdvanceWeight > 0 {
			k.AdvanceWeight = sc.Sched.AdvanceWeight
		}
		if sc.Sched.ReleaseWeight > 0 {
			k.ReleaseWeight = sc.Sched.ReleaseWeight
		}
		k.FIFO = sc.Sched.FIFO
		if sc.Sched.LazyClock {
			k.LazyClock, k.lazySet = true, true
		}
		if sc.Sched.Slow != "" {
			k.SetSlow(sc.Sched.Slow, sc.Sched.SlowDiv)
		}
		if f, err := os.OpenFile(filepath.Join(in.JobDir, fmt.Sprintf("events.%d.jsonl", in.Phase)), os.O_CREATE|os.O_WRONLY|os.O_APPEND, 0o644); err == nil {
			k.logFile = f
		}
		if err := applyConfig(sc, in.JobDir); err != nil {
			if sc.Extra != nil && sc.Extra["config_may_refuse"] != "" {
				// the crawl refuses to start with this configuration: nothing is fetched, which is within every property
				k.Probe("config-refused")
				rec.EndReason = "config-refused"
				r.writeRecord()
				os.Exit(0)
			}
			t.Fatalf("config: %v", err)
		}
		r.jobPath = config.Get().JobPath
		if in.Phase == 0 && !sc.Cfg.UseHQ {
			if err := preloadQueue(r.jobPath, sc.Queue); err != nil {
				t.Fatalf("preload: %v", err)
			}
		}
		n := NewSimNet(k, sc)
		r.net = n
		if f, err := os.OpenFile(filepath.Join(in.JobDir, fmt.Sprintf("origin.%d.jsonl", in.Phase)), os.O_CREATE|os.O_WRONLY|os.O_APPEND, 0o644); err == nil {
			n.logFile = f
		}
		warc.SimDialContext = func(ctx context.Context, network, addr string) (net.Conn, error) {
			return n.Dial(ctx, network, addr, "direct")
		}
		warc.SimLookupIP = func(ctx context.Context, host, rt string) (net.IP, error) {
			return n.Lookup(ctx, host, rt)
		}
		r.killTorn = -1
		if sc.Extra != nil {
			fmt.Sscan(sc.Extra["kill_write"], &r.killAtWrite)
			if v, ok := sc.Extra["kill_torn"]; ok {
				fmt.Sscan(v, &r.killTorn)
			}
		}
		if in.Phase > 0 {
			r.killAtWrite = 0
		}
		r.parkWarcWrites = sc.Extra == nil || sc.Extra["no_warc_park"] == ""
		warc.SimFileWrapper = func(f *os.File) io.Writer { return &killWriter{r: r, f: f} }
		n.RegisterProxyScheme()
		if sc.Cfg.UseHQ {
			installHQ(r)
		}
		verifhook.StatfsHandler = r.statfs
		verifhook.FaultHandler = r.lqFault
		for _, a := range sc.Ctl {
			r.ctl = append(r.ctl, &ctlState{a: a})
		}
		k.Oracles = append(k.Oracles, ctlOracle{r})
		k.Oracles = append(k.Oracles, oraclesFor(r)...)
		verifhook.Handler = k.Handle
		k.SetActor("root")
		if r.c04 != nil {
			r.c04.Before(k)
		}
		func() {
			defer func() {
				if p := recover(); p != nil {
					k.Violate("C03", "start", "start-panic", fmt.Sprint(p))
				}
			}()
			controler.Start()
			r.started = true
		}()
		reason := k.Run(r.hook)
		rec.EndReason = reason
		if reason == "max-sim-time" && !r.idleTold && !r.stopFired && r.sc.StopAtIdle && !persistentFaults(r.sc) {
			// bounded liveness: every injected fault is finite, and hours of simulated time later the crawl still has not
			// drained. Whatever is undelivered now is judged as it would be at idle.
			r.idleTold = true
			k.Probe("not-idle-within-the-simulated-time-bound")
			for _, o := range k.Oracles {
				if io, ok := o.(IdleOracle); ok {
					io.OnIdle(k)
				}
			}
		}
		r.finish()
		r.writeRecord()
		os.Exit(0)
	})
}

// lqFault decides the cooperative fault points of the local queue's database operations.
func (r *e2e) lqFault(point string) error {
	op := strings.TrimPrefix(point, "lq.db.")
	plan := r.sc.LQFaults[op]
	if len(plan) == 0 {
		return nil
	}
	r.lqMu.Lock()
	if r.lqCalls == nil {
		r.lqCalls = map[string]int{}
	}
	i := r.lqCalls[op]
	r.lqCalls[op]++
	r.lqMu.Unlock()
	f := ""
	if i < len(plan) {
		f = plan[i]
	} else if strings.HasSuffix(plan[len(plan)-1], "*") {
		f = plan[len(plan)-1]
	}
	if f == "" {
		return nil
	}
	r.k.Fault("lq-" + op + "-error")
	r.k.Handle("lq.db.fault", false, []any{op, i})
	return fmt.Errorf("simulated database error (%s call #%d): disk I/O error", op, i)
}

func (r *e2e) statfs(st *syscall.Statfs_t) {
	var d DiskReading
	if len(r.sc.Disk) == 0 {
		d = DiskReading{Blocks: 1 << 28, Bavail: 1 << 27, Bsize: 4096} // 1 TiB, half free
	} else {
		i := r.disk
		if i >= len(r.sc.Disk) {
			i = len(r.sc.Disk) - 1
		}
		d = r.sc.Disk[i]
		r.disk++
	}
	st.Blocks, st.Bavail, st.Bfree, st.Bsize = d.Blocks, d.Bavail, d.Bavail, d.Bsize
	r.k.Handle("disk.reading", false, []any{fmt.Sprint(d.Blocks), fmt.Sprint(d.Bavail), fmt.Sprint(d.Bsize)})
}

// Lookup resolves named hosts inside the simulator: every name maps to an address derived from it.
func (n *SimNet) Lookup(ctx context.Context, host, rt string) (net.IP, error) {
	if rt != "A" {
		return nil, fmt.Errorf("no AAAA record (simulated)")
	}
	if hp := n.sc.Hosts[host]; hp != nil && len(hp.DialFaults) > 0 && hp.DialFaults[0] == "nxdomain" {
		n.k.Fault("dns-nxdomain")
		return nil, fmt.Errorf("no such host (simulated)")
	}
	h := uint32(2166136261)
	for i := 0; i < len(host); i++ {
		h = (h ^ uint32(host[i])) * 16777619
	}
	return net.IPv4(10, 200, byte(h>>8), byte(h)), nil
}
