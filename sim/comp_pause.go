package sim

import (
	"context"
	"fmt"
	"sort"
	"sync"

	pause "github.com/internetarchive/Zeno/verifsim/sim/pausex"
)

func init() { compSims["pause"] = simPause }

// simPause: subscribers shaped like the stage workers, several controllers issuing
// matched and unmatched pause/resume calls, worker exits, and a final stop.
func simPause(cs *compState) {
	k := cs.k
	pause.XReset()
	nSub := 1 + cs.Draw(5)
	nCtl := 1 + cs.Draw(3)
	cs.sample["subscribers"], cs.sample["controllers"] = nSub, nCtl
	ctx, cancel := context.WithCancel(context.Background())
	cancelled := false
	work := make(chan int)
	acked := map[string]bool{}      // worker acknowledged a pause and has not completed its resume handshake
	resumeSeen := map[string]bool{} // a Resume() call was invoked since this worker's ack
	ctlLeft := nCtl
	subscribed := 0
	resuming := 0
	var mm sync.Mutex // model maps are touched by several goroutines inside one quantum
	workTaken := 0
	var scripts [][]string
	for c := 0; c < nCtl; c++ {
		var sc []string
		switch cs.Draw(7) {
		case 0, 1, 2:
			sc = []string{"pause", "resume"}
		case 3:
			sc = []string{"pause", "resume", "pause", "resume"}
		case 4:
			sc = []string{"pause", "pause", "resume"}
		case 5:
			sc = []string{"resume"}
		default:
			sc = []string{"pause", "resume", "resume"}
		}
		scripts = append(scripts, sc)
	}
	cs.sample["scripts"] = scripts
	// "any number of subscribed workers" includes none: sometimes a controller runs a cycle before any worker exists
	var prelude []string
	if cs.Chance(1, 3) {
		prelude = [][]string{{"pause", "resume"}, {"resume"}, {"pause", "resume", "resume"}, {"pause", "pause", "resume"}, {"pause", "resume", "pause", "resume"}}[cs.Draw(5)]
	}
	cs.sample["prelude"] = prelude
	preludeDone := len(prelude) == 0
	if len(prelude) > 0 {
		cs.Go("prelude", func() {
			for i, op := range prelude {
				k.Park("prelude", "comp.prelude."+op, i)
				cs.Enter("prelude", op+"() with no subscriber")
				if op == "pause" {
					pause.Pause("sim")
				} else {
					pause.Resume()
				}
				cs.Leave("prelude")
			}
			// every script ends with a resume after the last pause: the manager must be running again
			if pause.IsPaused() {
				k.Violate("C14", "state", "still-paused-after-resume", fmt.Sprintf("with no subscriber, %v was called in sequence and every call returned, yet IsPaused() is still true", prelude))
			}
			k.Probe("c14-cycles-without-subscribers")
			mm.Lock()
			preludeDone = true
			mm.Unlock()
		})
	}
	// exact model for a single controller (calls cannot overlap): which pauses took effect, and who must have acknowledged them
	model := "running"
	ackN := map[string]int{}
	alive := map[string]bool{}
	var atPause map[string]int
	for s := 0; s < nSub; s++ {
		actor := fmt.Sprintf("worker%d", s)
		exitAfter := -1
		if cs.Chance(1, 4) {
			exitAfter = cs.Draw(4)
		}
		cs.Go(actor, func() {
			for {
				mm.Lock()
				ok := preludeDone
				mm.Unlock()
				if ok {
					break
				}
				k.Park(actor, "comp.worker.wait")
			}
			chans := pause.Subscribe()
			defer pause.Unsubscribe(chans)
			mm.Lock()
			subscribed++
			alive[actor] = true
			mm.Unlock()
			defer func() { mm.Lock(); delete(alive, actor); mm.Unlock() }()
			taken := 0
			for {
				if exitAfter >= 0 && taken >= exitAfter {
					mm.Lock()
					delete(alive, actor)
					mm.Unlock()
					k.Note(actor, "comp.worker.exit")
					return
				}
				select {
				case <-ctx.Done():
					return
				case <-chans.PauseCh:
					mm.Lock()
					acked[actor] = true
					resumeSeen[actor] = false
					ackN[actor]++
					mm.Unlock()
					k.Park(actor, "comp.ack")
					select {
					case chans.ResumeCh <- struct{}{}:
					case <-ctx.Done():
						mm.Lock()
						delete(acked, actor)
						mm.Unlock()
						return
					}
					mm.Lock()
					delete(acked, actor)
					mm.Unlock()
					k.Park(actor, "comp.resumed")
				case w := <-work:
					mm.Lock()
					bad := acked[actor] && !resumeSeen[actor]
					taken++
					workTaken++
					mm.Unlock()
					if bad {
						k.Violate("C14", "paused-takes-no-work", "work-taken-while-paused", fmt.Sprintf("%s took work item %d after acknowledging the pause and before any resume", actor, w))
					}
					k.Park(actor, "comp.work", w)
				}
			}
		})
	}
	nWork := 20 + cs.Draw(60) // a finite supply: once it is used up a call that never returns shows as "nothing can run any more"
	cs.Go("feeder", func() {
		for n := 0; n < nWork; n++ {
			select {
			case work <- n:
			case <-ctx.Done():
				return
			}
			k.Park("feeder", "comp.fed", n)
		}
	})
	for c := 0; c < nCtl; c++ {
		actor := fmt.Sprintf("ctl%d", c)
		script := scripts[c]
		cs.Go(actor, func() {
			defer func() { mm.Lock(); ctlLeft--; mm.Unlock() }()
			// the statement is about subscribed workers: controllers start once every worker has subscribed
			for {
				mm.Lock()
				ok := subscribed >= nSub
				mm.Unlock()
				if ok {
					break
				}
				k.Park(actor, "comp.ctl.wait")
			}
			for i, op := range script {
				k.Park(actor, "comp."+op+".begin", i)
				switch op {
				case "pause":
					if nCtl == 1 && model == "running" {
						mm.Lock()
						model = "paused"
						atPause = map[string]int{}
						for a := range alive {
							atPause[a] = ackN[a]
						}
						mm.Unlock()
					}
					cs.Enter(actor, "Pause()")
					pause.Pause("sim")
					cs.Leave(actor)
					if nCtl == 1 && !pause.IsPaused() {
						k.Violate("C14", "state", "not-paused-after-pause", "a single controller called Pause() while the pipeline was running; the call returned and IsPaused() is false")
					}
				case "resume":
					mm.Lock()
					for a := range acked {
						resumeSeen[a] = true
					}
					resuming++
					mm.Unlock()
					cs.Enter(actor, "Resume()")
					pause.Resume()
					cs.Leave(actor)
					mm.Lock()
					resuming--
					others := resuming
					mm.Unlock()
					// resume wakes all: nobody who had acknowledged may still sit in the handshake,
					// unless a new pause has been broadcast meanwhile (then resumeSeen is false again)
					var stuck []string
					mm.Lock()
					for a := range acked {
						if resumeSeen[a] {
							stuck = append(stuck, a)
						}
					}
					mm.Unlock()
					if len(stuck) > 0 && others == 0 {
						sort.Strings(stuck)
						k.Violate("C14", "resume-wakes-all", "worker-not-woken", fmt.Sprintf("Resume() returned but %v are still blocked in the resume handshake", stuck))
					}
					if nCtl == 1 && model == "paused" {
						// the pause that this resume ends took effect: every worker that was subscribed throughout acknowledged it
						mm.Lock()
						model = "running"
						var deaf []string
						for a, n := range atPause {
							if alive[a] && ackN[a] == n {
								deaf = append(deaf, a)
							}
						}
						mm.Unlock()
						if len(deaf) > 0 {
							sort.Strings(deaf)
							k.Violate("C14", "pause-stops-all", "pause-never-reached-worker", fmt.Sprintf("a single controller paused the running pipeline and resumed it; both calls returned, but %v (subscribed the whole time) never saw the pause", deaf))
						}
						if pause.IsPaused() {
							k.Violate("C14", "state", "still-paused-after-resume", "a single controller resumed the paused pipeline; the call returned and IsPaused() is still true")
						}
						k.Probe("c14-exact-model-cycles")
					}
				}
				k.Park(actor, "comp."+op+".end", i)
			}
		})
	}
	reason := cs.runUntilQuiet(func() {
		if ctlLeft == 0 && !cancelled {
			cancelled = true
			k.Probe("c14-clean-scripts")
			cancel()
		}
	})
	if reason == "max-steps" && !k.Spun() {
		k.Probe("comp-step-budget-exhausted")
	} else if reason == "deadlock" || reason == "max-steps" {
		bl := cs.Blocked()
		if len(bl) > 0 && !cancelled {
			var who []string
			for a, c := range bl {
				who = append(who, a+":"+c)
			}
			sort.Strings(who)
			k.Violate("C14", "calls-return", "call-blocked-forever", fmt.Sprintf("nothing can run any more but these calls have not returned: %v (scripts %v, %d subscribers, paused=%v)", who, scripts, nSub, pause.IsPaused()))
		}
		if !cancelled {
			cancelled = true
			cancel()
			// let shutdown proceed: whoever is still blocked after the stop is blocked forever
			r2 := cs.runUntilQuiet(nil)
			if r2 != "done" {
				bl2 := cs.Blocked()
				if len(bl2) > 0 {
					k.Probe("c14-blocked-even-after-stop")
				}
			}
		} else if cs.Live() > 0 {
			k.Violate("C14", "calls-return", "blocked-after-stop", fmt.Sprintf("after shutdown %d simulated goroutines are still blocked: %v", cs.Live(), cs.Blocked()))
		}
	}
	if reason == "done" || cancelled {
		// handled above
	}
	k.Probes["c14-work-items"] += workTaken
	k.Drain()
	if !cancelled {
		cancel()
	}
	pause.XReset()
}
