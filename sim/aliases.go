package sim

import "github.com/internetarchive/Zeno/verifsim/scen"

type (
	Scenario    = scen.Scenario
	Cfg         = scen.Cfg
	QRow        = scen.QRow
	Resource    = scen.Resource
	Response    = scen.Response
	Body        = scen.Body
	HostPlan    = scen.HostPlan
	Trigger     = scen.Trigger
	CtlAction   = scen.CtlAction
	DiskReading = scen.DiskReading
	HQPlan      = scen.HQPlan
	Tape        = scen.Tape
	Violation   = scen.Violation
	RunInput    = scen.RunInput
	RunRecord   = scen.RunRecord
	WarcRec     = scen.WarcRec
	WarcIndex   = scen.WarcIndex
)

var (
	NewTape       = scen.NewTape
	NewReplayTape = scen.NewReplayTape
	gzipBytes     = scen.GzipBytes
	NewWarcIndex  = scen.NewWarcIndex
	uriKey        = scen.URIKey
)
