package sim

import (
	"fmt"
	"os"
	"path/filepath"
	"testing"
)

func RunComp(t *testing.T, in *RunInput) {}

func moreOracles(r *e2e, t *tracker) []Oracle {
	var c02 *oC02
	for _, o := range r.k.Oracles {
		_ = o
	}
	c02 = &oC02{r: r, t: t}
	out := []Oracle{&oC03{r: r}}
	out = append(out, moreE2EOracles(r, t)...)
	if f, err := os.OpenFile(filepath.Join(r.in.JobDir, fmt.Sprintf("exch.%d.jsonl", r.in.Phase)), os.O_CREATE|os.O_WRONLY|os.O_APPEND, 0o644); err == nil {
		out = append(out, &exchWriter{r: r, t: t, c02: c02, f: f, done: map[*exchange]bool{}})
	}
	if r.in.Phase > 0 {
		r.c04 = &oC04{r: r, t: t}
		out = append(out, r.c04)
	}
	return out
}
