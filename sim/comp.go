package sim

import (
	"crypto/sha256"
	"fmt"
	"os"
	"path/filepath"
	goruntime "runtime"
	"runtime/debug"
	"strconv"
	"sync"
	"testing"
	"testing/synctest"
	"time"

	"github.com/internetarchive/Zeno/internal/pkg/stats"
	"github.com/internetarchive/Zeno/internal/pkg/verifhook"
	"github.com/internetarchive/Zeno/verifsim/sim/simsync"
)

func moreOracles(r *e2e, t *tracker) []Oracle {
	c02 := &oC02{r: r, t: t}
	out := []Oracle{&oC03{r: r}, &oC14{r: r, acked: map[uint64]string{}}, newOC13(r)}
	out = append(out, moreE2EOracles(r, t)...)
	if f, err := os.OpenFile(filepath.Join(r.in.JobDir, fmt.Sprintf("exch.%d.jsonl", r.in.Phase)), os.O_CREATE|os.O_WRONLY|os.O_APPEND, 0o644); err == nil {
		out = append(out, &exchWriter{r: r, t: t, c02: c02, f: f, done: map[*exchange]bool{}})
	}
	if r.in.Phase > 0 {
		r.c04 = &oC04{r: r, t: t}
		out = append(out, r.c04)
	}
	return out
}

// ---------------------------------------------------------------- component simulation engine

// compState is what one component-simulation iteration (one bubble) works with.
type compState struct {
	k           *Kernel
	tape        *Tape
	prop        string
	extra       map[string]string
	clients     sync.WaitGroup
	nLive       int
	liveMu      sync.Mutex
	done        chan struct{} // closed when the iteration is being torn down
	blocked     map[string]string
	sample      map[string]any
	endHook     func() // called at quiescent points; may call k.End
	staleRounds int
	mu          sync.Mutex
}

func (cs *compState) Draw(n int) int {
	cs.mu.Lock()
	defer cs.mu.Unlock()
	return cs.tape.Draw(n)
}

func (cs *compState) Chance(num, den int) bool { return cs.Draw(den) < num }

// Go starts a simulated client. The client must call cs.k.Park before every Draw.
func (cs *compState) Go(actor string, f func()) {
	cs.liveMu.Lock()
	cs.nLive++
	cs.liveMu.Unlock()
	go func() {
		defer func() {
			cs.liveMu.Lock()
			cs.nLive--
			cs.liveMu.Unlock()
		}()
		cs.k.Park(actor, "comp.start")
		f()
	}()
}

func (cs *compState) Live() int {
	cs.liveMu.Lock()
	defer cs.liveMu.Unlock()
	return cs.nLive
}

// Enter / Leave bracket a call into the component, so that a call that never returns can be named.
func (cs *compState) Enter(actor, call string) {
	cs.liveMu.Lock()
	cs.blocked[actor] = call
	cs.liveMu.Unlock()
}
func (cs *compState) Leave(actor string) {
	cs.liveMu.Lock()
	delete(cs.blocked, actor)
	cs.liveMu.Unlock()
}
func (cs *compState) Blocked() map[string]string {
	cs.liveMu.Lock()
	defer cs.liveMu.Unlock()
	out := map[string]string{}
	for k, v := range cs.blocked {
		out[k] = v
	}
	return out
}

type compSim func(cs *compState)

var compSims = map[string]compSim{}

func compResolver(k *Kernel, goid uint64, point string, args []any) string {
	for _, r := range roleByPrefix {
		if len(point) >= len(r.prefix) && point[:len(r.prefix)] == r.prefix {
			k.actorOf[goid] = r.role
			return r.role
		}
	}
	if a, ok := k.actorOf[goid]; ok {
		return a
	}
	return "g?:" + point
}

// RunComp runs Extra["iters"] iterations of the component simulation Extra["comp"], one bubble each.
func RunComp(t *testing.T, in *RunInput) {
	sc := in.Scenario
	name := sc.Extra["comp"]
	fn := compSims[name]
	rec := &RunRecord{Property: in.Property, Seed: in.Seed, Probes: map[string]int{}, Faults: map[string]int{}, Summary: map[string]any{}}
	write := func() {
		writeJSON(in.Out, rec)
	}
	if fn == nil {
		rec.EndReason = "harness-panic"
		rec.Panic = "unknown component simulation " + name
		write()
		os.Exit(3)
	}
	iters, _ := strconv.Atoi(sc.Extra["iters"])
	if iters <= 0 {
		iters = 1
	}
	only := -1
	if v, ok := sc.Extra["only_iter"]; ok {
		only, _ = strconv.Atoi(v)
	}
	os.Chdir(in.JobDir)
	stats.Init()
	hashes := map[string]bool{}
	nIter := 0
	pairs := map[string]bool{}
	var samples []any
	for i := 0; i < iters; i++ {
		if only >= 0 && i != only {
			continue
		}
		sub := in.Seed*0x9e3779b97f4a7c15 + uint64(i)*0x632be59bd9b4e019 + 1
		var tape *Tape
		if in.Replay && (only == i || iters == 1) {
			tape = NewReplayTape(in.Tape)
		} else {
			tape = NewTape(sub)
		}
		var k *Kernel
		var cs *compState
		var simNs int64
		func() {
			defer func() {
				if p := recover(); p != nil {
					msg := fmt.Sprint(p)
					if k != nil && len(msg) > 8 && (contains(msg, "deadlock") || contains(msg, "blocked goroutines")) {
						// goroutines left durably blocked when the bubble ended: the iteration's own oracles have already judged that
						return
					}
					rec.Panic = fmt.Sprintf("iter %d: %v\n%s", i, p, debug.Stack())
				}
			}()
			synctest.Test(t, func(t *testing.T) {
				time.Sleep(123456789 * time.Nanosecond)
				goruntime.SimBubbleGlobals(true)
				goruntime.SimSetBias(1)
				k = NewKernel(tape)
				k.resolver = compResolver
				k.keepLog = in.KeepLog
				k.MaxSteps = 20000
				k.MaxSimTime = 6 * time.Hour
				cs = &compState{k: k, tape: tape, prop: in.Property, extra: sc.Extra, done: make(chan struct{}), blocked: map[string]string{}, sample: map[string]any{}}
				verifhook.Handler = k.Handle
				rootGoid := goruntime.SimGoid()
				simsync.YieldFn = func() {
					// the root goroutine drives the kernel: it must never park itself
					if goruntime.SimGoid() != rootGoid {
						k.Handle("sim.yield", true, nil)
					}
				}
				k.SetActor("root")
				fn(cs)
				simsync.YieldFn = nil
				simNs = int64(k.Now())
				verifhook.Handler = nil
			})
		}()
		goruntime.SimSetBias(0)
		if rec.Panic != "" {
			rec.EndReason = "harness-panic"
			write()
			os.Exit(3)
		}
		rec.Steps += k.Steps()
		rec.Events += k.Events()
		rec.SimNs += simNs
		rec.Anon += k.AnonCount()
		for p, n := range k.Probes {
			rec.Probes[p] += n
		}
		for p, n := range k.Faults {
			rec.Faults[p] += n
		}
		for _, p := range k.PairList() {
			pairs[p] = true
		}
		nIter++
		if k.Events() == 0 {
			hashes[fmt.Sprintf("tape-%x", sha256.Sum256([]byte(fmt.Sprint(tape.Rec))))] = true
		} else {
			hashes[k.HashHex()] = true
		}
		if len(samples) < 2 {
			cs.sample["iter"] = i
			cs.sample["steps"] = k.Steps()
			cs.sample["end"] = k.endReason
			samples = append(samples, cs.sample)
		}
		if len(k.Violations) > 0 {
			for _, v := range k.Violations {
				v.Detail = fmt.Sprintf("[iteration %d] %s", i, v.Detail)
				rec.Violations = append(rec.Violations, v)
			}
			rec.Tape = tape.Rec
			rec.Summary["viol_iter"] = i
			rec.Hash = k.HashHex()
			if in.KeepLog {
				rec.Log = k.Log
			}
			break
		}
		if only == i {
			rec.Tape = tape.Rec
			rec.Hash = k.HashHex()
			if in.KeepLog {
				rec.Log = k.Log
			}
		}
	}
	rec.EndReason = "comp-done"
	if rec.Hash == "" {
		rec.Hash = fmt.Sprintf("comp-%d-hashes", len(hashes))
	}
	var hl []string
	for h := range hashes {
		hl = append(hl, h)
	}
	rec.Summary["iter_hashes"] = hl
	rec.Summary["iterations"] = nIter
	rec.Summary["samples"] = samples
	for p := range pairs {
		rec.PairList = append(rec.PairList, p)
	}
	rec.Pairs = len(pairs)
	write()
	os.Exit(0)
}

func contains(s, sub string) bool {
	for i := 0; i+len(sub) <= len(s); i++ {
		if s[i:i+len(sub)] == sub {
			return true
		}
	}
	return false
}

// runUntilQuiet drives the kernel until every client has finished, or nothing can happen any more.
// It returns "done", "deadlock" or the kernel's own end reason.
func (cs *compState) runUntilQuiet(extra func()) string {
	k := cs.k
	lastEvents := -1
	stale := 0
	return k.Run(func() {
		if extra != nil {
			extra()
		}
		if k.stopRun {
			return
		}
		if cs.Live() == 0 {
			k.End("done")
			return
		}
		if len(k.sortedParked()) == 0 {
			if k.Events() == lastEvents {
				stale++
			} else {
				stale = 0
			}
			lastEvents = k.Events()
			limit := cs.staleRounds
			if limit == 0 {
				limit = 3
			}
			if stale >= limit {
				k.End("deadlock")
			}
		} else {
			stale = 0
			lastEvents = k.Events()
		}
	})
}
