package sim

import "testing"

func RunComp(t *testing.T, in *RunInput) {}

func moreOracles(r *e2e, t *tracker) []Oracle { return nil }
