package sim

import (
	"bufio"
	"context"
	"crypto/sha1"
	"encoding/hex"
	"encoding/json"
	"errors"
	"fmt"
	"io"
	"net"
	"net/http"
	"net/url"
	"os"
	"strconv"
	"strings"
	"sync"
	"time"

	"golang.org/x/net/proxy"
)

// OriginEntry is one line of the origin log (ground truth of what reached the wire).
type OriginEntry struct {
	Seq      int               `json:"seq"`
	Step     int               `json:"step"`
	T        int64             `json:"t"`
	Host     string            `json:"host"`
	Method   string            `json:"method"`
	URI      string            `json:"uri"`
	Key      string            `json:"key"`
	Attempt  int               `json:"attempt"`
	UA       string            `json:"ua,omitempty"`
	Known    bool              `json:"known"`
	Status   int               `json:"status"`
	Fault    string            `json:"fault,omitempty"`
	BodySHA1 string            `json:"body_sha1,omitempty"` // entity body as sent (content-encoded, before chunking)
	BodyLen  int               `json:"body_len"`
	CT       string            `json:"ct,omitempty"`
	Started  bool              `json:"started"`  // response bytes started flowing
	Complete bool              `json:"complete"` // whole response written and accepted by the client
	DoneStep int               `json:"done_step,omitempty"`
	Headers  map[string]string `json:"-"`
}

type simAddr struct{ s string }

func (a simAddr) Network() string { return "tcp" }
func (a simAddr) String() string  { return a.s }

type simConn struct {
	net.Conn
	remote net.Addr
	local  net.Addr
}

func (c *simConn) RemoteAddr() net.Addr { return c.remote }
func (c *simConn) LocalAddr() net.Addr  { return c.local }

// SimNet is the simulated network plus the origin servers.
type SimNet struct {
	k        *Kernel
	sc       *Scenario
	mu       sync.Mutex
	Log      []*OriginEntry
	attempts map[string]int
	dials    map[string]int
	Dials    []DialEntry
	logFile  *os.File
	// Extra handlers (HQ service, bucket service) keyed by host
	Services map[string]func(n *SimNet, c net.Conn, host string)
	// Dynamic resolves requests for hosts whose content is computed (bucket listings)
	Dynamic map[string]func(req *http.Request) *Response
	// OnRequest is called (under no lock) for every request read, before parking
	OnRequest func(e *OriginEntry)
}

type DialEntry struct {
	Step  int    `json:"step"`
	T     int64  `json:"t"`
	Addr  string `json:"addr"`
	Fault string `json:"fault,omitempty"`
	Via   string `json:"via"`
}

func NewSimNet(k *Kernel, sc *Scenario) *SimNet {
	return &SimNet{k: k, sc: sc, attempts: map[string]int{}, dials: map[string]int{}, Services: map[string]func(*SimNet, net.Conn, string){}}
}

func hostOnly(addr string) string {
	h, p, err := net.SplitHostPort(addr)
	if err != nil {
		return addr
	}
	if p == "80" {
		return h
	}
	return h + ":" + p
}

var errRefused = errors.New("dial tcp: connect: connection refused (simulated)")

type timeoutErr struct{}

func (timeoutErr) Error() string   { return "dial tcp: i/o timeout (simulated)" }
func (timeoutErr) Timeout() bool   { return true }
func (timeoutErr) Temporary() bool { return true }

// Dial is the only way the system under test reaches the network.
func (n *SimNet) Dial(ctx context.Context, network, addr, via string) (net.Conn, error) {
	host := hostOnly(addr)
	n.mu.Lock()
	idx := n.dials[host]
	n.dials[host]++
	fault := ""
	if hp := n.sc.Hosts[host]; hp != nil && idx < len(hp.DialFaults) {
		fault = hp.DialFaults[idx]
	}
	n.Dials = append(n.Dials, DialEntry{Step: n.k.step, T: int64(n.k.Now()), Addr: addr, Fault: fault, Via: via})
	n.mu.Unlock()
	switch fault {
	case "refuse":
		n.k.Fault("dial-refused")
		return nil, errRefused
	case "blackhole":
		n.k.Fault("dial-blackhole")
		t := time.NewTimer(10 * time.Second)
		defer t.Stop()
		select {
		case <-ctx.Done():
			return nil, ctx.Err()
		case <-t.C:
			return nil, timeoutErr{}
		}
	}
	c1, c2 := net.Pipe()
	ip := net.ParseIP(strings.Split(host, ":")[0])
	var remote net.Addr = simAddr{addr}
	if ip != nil {
		port := 80
		if _, p, err := net.SplitHostPort(addr); err == nil {
			port, _ = strconv.Atoi(p)
		}
		remote = &net.TCPAddr{IP: ip, Port: port}
	}
	if svc := n.Services[host]; svc != nil {
		go svc(n, c2, host)
	} else {
		go n.serve(c2, host)
	}
	return &simConn{Conn: c1, remote: remote, local: &net.TCPAddr{IP: net.IPv4(10, 255, 0, 1), Port: 40000}}, nil
}

type simProxyDialer struct{ n *SimNet }

func (d simProxyDialer) Dial(network, addr string) (net.Conn, error) {
	return d.n.Dial(context.Background(), network, addr, "proxy")
}
func (d simProxyDialer) DialContext(ctx context.Context, network, addr string) (net.Conn, error) {
	return d.n.Dial(ctx, network, addr, "proxy")
}

// RegisterProxyScheme makes "--proxy sim://x" dial into the simulated network.
func (n *SimNet) RegisterProxyScheme() {
	proxy.RegisterDialerType("sim", func(u *url.URL, fwd proxy.Dialer) (proxy.Dialer, error) {
		return simProxyDialer{n}, nil
	})
}

func (n *SimNet) planFor(key string, attempt int) (*Resource, *Response) {
	r := n.sc.Site[key]
	if r == nil || len(r.Resp) == 0 {
		return r, nil
	}
	if attempt >= len(r.Resp) {
		attempt = len(r.Resp) - 1
	}
	return r, &r.Resp[attempt]
}

func statusText(code int) string {
	if t := http.StatusText(code); t != "" {
		return t
	}
	return "Status"
}

// BuildWire renders a response plan into header bytes and body-on-the-wire bytes.
// entity is the content-encoded entity body (what a WARC payload must equal).
func BuildWire(rp *Response) (head []byte, wireBody []byte, entity []byte) {
	entity = rp.Body.Bytes()
	if rp.Gzip {
		entity = gzipBytes(entity)
	}
	var sb strings.Builder
	fmt.Fprintf(&sb, "HTTP/1.1 %d %s\r\n", rp.Status, statusText(rp.Status))
	hasCT := false
	for _, h := range rp.Headers {
		fmt.Fprintf(&sb, "%s: %s\r\n", h[0], h[1])
		if strings.EqualFold(h[0], "Content-Type") {
			hasCT = true
		}
	}
	_ = hasCT
	if rp.Gzip {
		sb.WriteString("Content-Encoding: gzip\r\n")
	}
	sb.WriteString("Connection: close\r\n")
	declared := len(entity)
	switch rp.Fault {
	case "short-body":
		declared = len(entity) + 7
	case "long-body":
		if declared >= 3 {
			declared -= 3
		}
	}
	if rp.Chunked {
		sb.WriteString("Transfer-Encoding: chunked\r\n\r\n")
		var wb strings.Builder
		rest := entity
		for len(rest) > 0 {
			n := 1000
			if n > len(rest) {
				n = len(rest)
			}
			fmt.Fprintf(&wb, "%x\r\n", n)
			wb.Write(rest[:n])
			wb.WriteString("\r\n")
			rest = rest[n:]
		}
		wb.WriteString("0\r\n\r\n")
		wireBody = []byte(wb.String())
	} else if rp.NoLen {
		sb.WriteString("\r\n")
		wireBody = entity
	} else {
		fmt.Fprintf(&sb, "Content-Length: %d\r\n\r\n", declared)
		wireBody = entity
	}
	return []byte(sb.String()), wireBody, entity
}

func headerOf(rp *Response, name string) string {
	for _, h := range rp.Headers {
		if strings.EqualFold(h[0], name) {
			return h[1]
		}
	}
	return ""
}

func (n *SimNet) serve(c net.Conn, host string) {
	defer c.Close()
	br := bufio.NewReader(c)
	req, err := http.ReadRequest(br)
	if err != nil {
		return
	}
	uri := req.URL.RequestURI()
	reqHost := req.Host
	if reqHost == "" {
		reqHost = host
	}
	key := hostOnly2(reqHost) + uri
	n.mu.Lock()
	attempt := n.attempts[key]
	n.attempts[key]++
	e := &OriginEntry{Seq: len(n.Log), Step: n.k.step, T: int64(n.k.Now()), Host: reqHost, Method: req.Method, URI: uri, Key: key, Attempt: attempt, UA: req.Header.Get("User-Agent")}
	e.Headers = map[string]string{}
	for hk := range req.Header {
		e.Headers[hk] = req.Header.Get(hk)
	}
	n.Log = append(n.Log, e)
	n.mu.Unlock()
	res, rp := n.planFor(key, attempt)
	e.Known = res != nil
	if rp == nil && n.Dynamic != nil {
		if dyn := n.Dynamic[hostOnly2(reqHost)]; dyn != nil {
			rp = dyn(req)
			e.Known = rp != nil
		}
	}
	if n.OnRequest != nil {
		n.OnRequest(e)
	}
	actor := "origin:" + key + "#" + strconv.Itoa(attempt)
	n.k.Park(actor, "origin.request", key, attempt)
	if rp == nil {
		rp = &Response{Status: 404, Headers: [][2]string{{"Content-Type", "text/plain"}}, Body: Body{Text: "not found\n"}}
	}
	e.Status = rp.Status
	e.Fault = rp.Fault
	e.CT = headerOf(rp, "Content-Type")
	head, wire, entity := BuildWire(rp)
	sum := sha1.Sum(entity)
	e.BodySHA1 = hex.EncodeToString(sum[:])
	e.BodyLen = len(entity)
	if rp.Fault != "" {
		n.k.Fault("origin-" + rp.Fault)
	}
	finish := func(complete bool) {
		e.Complete = complete
		e.DoneStep = n.k.step
		n.persist(e)
		n.k.Note(actor, "origin.done", key, attempt, rp.Status, rp.Fault, complete)
	}
	switch rp.Fault {
	case "close-before-status":
		finish(false)
		return
	case "reset-headers":
		c.Write(head[:len(head)/2])
		e.Started = true
		finish(false)
		return
	case "stall":
		e.Started = false
		io.Copy(io.Discard, c) // until the client gives up
		finish(false)
		return
	}
	e.Started = true
	if _, err := c.Write(head); err != nil {
		finish(false)
		return
	}
	body := wire
	switch rp.Fault {
	case "reset-body":
		body = wire[:len(wire)/2]
	case "long-body":
		// declared length is shorter than what is sent
	}
	pieces := rp.Pieces
	if pieces < 1 {
		pieces = 1
	}
	if rp.Fault == "slow" && pieces < 3 {
		pieces = 3
	}
	sz := (len(body) + pieces - 1) / pieces
	if sz == 0 {
		sz = 1
	}
	for off, i := 0, 0; off < len(body); i++ {
		end := off + sz
		if end > len(body) {
			end = len(body)
		}
		if i > 0 {
			if rp.DelayMs > 0 {
				time.Sleep(time.Duration(rp.DelayMs) * time.Millisecond)
			}
			n.k.Park(actor, "origin.piece", key, attempt, i)
		}
		if _, err := c.Write(body[off:end]); err != nil {
			finish(false)
			return
		}
		off = end
	}
	finish(rp.Fault == "" || rp.Fault == "slow")
}

func hostOnly2(h string) string {
	if strings.HasSuffix(h, ":80") {
		return strings.TrimSuffix(h, ":80")
	}
	return h
}

func (n *SimNet) persist(e *OriginEntry) {
	if n.logFile == nil {
		return
	}
	b, _ := json.Marshal(e)
	n.logFile.Write(append(b, '\n'))
}

// Snapshot returns a copy of the origin log.
func (n *SimNet) Snapshot() []*OriginEntry {
	n.mu.Lock()
	defer n.mu.Unlock()
	return append([]*OriginEntry(nil), n.Log...)
}
